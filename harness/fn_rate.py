"""Adapters and case generators for qartod.rate_of_change_test and argo.speed_test (C10).

Times are stored in the cases as integer nanoseconds (`ts_ns`).  `kind` selects how they are handed
to the implementation: "dt64" = np.array(ns, dtype='datetime64[ns]'), "int"/"float" = python list of
epoch seconds, "npint"/"npfloat" = numpy array of epoch seconds (only for multiples of 10^9 ns).
Values live on the dyadic grid k/64; steps are whole seconds.  For speed_test the hop distances are
computed here with geographiclib, converted exactly (Fraction(float)) and given to the model as a
lookup table (the model is generic in the distance function)."""
import itertools
from fractions import Fraction as F

import core
from fns import big_shift_copies
from adapters import Adapter
from core import clist, obs_list, q, z
from fns import G, frs, series_cases, unfr

NS = 10 ** 9
STEPS = [1, 2, 60, 900, 86400, 172800]
KINDS = ["dt64", "int", "float", "npint", "npfloat"]


def times_arg(ts_ns, kind):
    import numpy as np

    if kind == "dt64":
        return np.array([int(t) for t in ts_ns], dtype="datetime64[ns]")
    secs = [t // NS for t in ts_ns]
    assert all(t % NS == 0 for t in ts_ns)
    if kind == "int":
        return [int(s) for s in secs]
    if kind == "float":
        return [float(s) for s in secs]
    if kind == "npint":
        return np.array(secs, dtype="int64")
    if kind == "npfloat":
        return np.array(secs, dtype="float64")
    raise ValueError(kind)


def zlist(ts_ns):
    return clist([z(t) for t in ts_ns])


def axis(start_ns, steps):
    out = [start_ns]
    for s in steps:
        out.append(out[-1] + s * NS)
    return out


def increasing_whole(ts_ns):
    return all((b - a) > 0 and (b - a) % NS == 0 for a, b in zip(ts_ns, ts_ns[1:]))


def pick_kind(rng, start_ns):
    if start_ns % NS:
        return "dt64"
    return rng.choice(KINDS)


# ------------------------------------------------------------------ rate_of_change_test

class Roc(Adapter):
    name = "rate_of_change_test"
    imports = ["Base", "Rate"]

    def impl(self, case):
        from ioos_qc import qartod

        kw = {"inp": core.to_float_array([unfr(x) for x in case["xs"]]),
              "tinp": times_arg(case["ts_ns"], case["kind"]),
              "threshold": float(unfr(case["thr"]))}
        return core.call_impl(qartod.rate_of_change_test, kw)

    def model(self, case):
        return (f"(roc_model {q(unfr(case['thr']))} {obs_list([unfr(x) for x in case['xs']])} "
                f"{zlist(case['ts_ns'])})")

    def spec(self, case):
        return self.model(case).replace("roc_model", "roc_spec", 1)

    def in_domain(self, case):
        # the property's domain: strictly increasing whole-second axes (any lengths: a length
        # mismatch must be rejected)
        return increasing_whole(case["ts_ns"])


def gen_roc(tier, rng):
    cases = []
    thorough = tier != "quick"

    def add(xs, ts_ns, thr, kind=None):
        start = ts_ns[0] if ts_ns else 0
        cases.append({"xs": frs(xs), "ts_ns": [int(t) for t in ts_ns], "thr": core.fr(thr),
                      "kind": kind or pick_kind(rng, start)})

    # 1. exhaustive: every series of length <= L over a small alphabet x every axis with steps in
    #    {1, 2, 60} x dyadic thresholds (rates 0, 1/2, 1, 3/2, 2, 3 are hit exactly with dt = 1, 2)
    alpha = [None, F(0), F(1), F(3)]
    thrs = [F(0), G, F(1, 2), F(1), F(3, 2), F(2)]
    L = 4 if thorough else 3
    for xs in series_cases(alpha, L, rng):
        n = len(xs)
        for steps in itertools.product([1, 2, 60], repeat=max(n - 1, 0)):
            start = rng.choice([0, 1700000000 * NS, 86399 * NS])
            ts = axis(start, steps) if n else []
            for thr in thrs:
                add(xs, ts, thr)
    # 2. random walks whose rates are exact: dx = +-r * dt, r dyadic, all step sizes mixed;
    #    thresholds equal to one of the rates, one grid step below / above, ...
    rates = [F(0), G, F(1, 2), F(63, 64), F(1), F(65, 64), F(2), F(5)]
    for _ in range(6000 if thorough else 1500):
        n = rng.randint(2, 12)
        start = rng.choice([0, 1, 1700000000, 946684799]) * NS + rng.choice([0, 0, 0, 123456789, 999999999])
        steps = [rng.choice(STEPS) for _ in range(n - 1)]
        ts = axis(start, steps)
        hidden = [F(rng.randint(-64, 64), 64)]
        for s in steps:
            hidden.append(hidden[-1] + rng.choice([-1, 1]) * rng.choice(rates) * s)
        pm = rng.choice([0, 0.15, 0.4])
        xs = [None if rng.random() < pm else v for v in hidden]
        add(xs, ts, rng.choice([F(0), G, F(1, 2), F(63, 64), F(1), F(65, 64), F(2), F(4), F(5)]))
    # 3. arbitrary grid values (rates generally not representable, but far from the dyadic thresholds)
    for _ in range(3000 if thorough else 800):
        n = rng.randint(2, 10)
        start = rng.choice([0, 1700000000]) * NS + rng.choice([0, 500000000])
        ts = axis(start, [rng.choice(STEPS) for _ in range(n - 1)])
        scale = rng.choice([1, 64, 64 * 900, 64 * 86400])
        xs = [None if rng.random() < 0.15 else F(rng.randint(-640, 640) * scale, 64) for _ in range(n)]
        add(xs, ts, rng.choice([F(0), G, F(1, 4), F(1), F(10), F(100)]))
    # 4. a long gap / multi-day steps, every kind of time argument
    for kind in KINDS:
        for thr in (F(1, 2), F(1)):
            add([F(0), F(86400), F(86400) + 172800 * F(1, 2), None, F(5), F(5) + F(1, 2), F(4)],
                axis(1700000000 * NS, [86400, 172800, 1, 1, 1, 2]), thr, kind)
            add([], [], thr, kind)
            add([F(1)], [5 * NS], thr, kind)
            add([None], [5 * NS], thr, kind)
    # 5. mismatched lengths (the property: ValueError)
    for n in range(0, 6):
        for m in range(0, 6):
            if n == m:
                continue
            for _ in range(3):
                xs = [None if rng.random() < 0.15 else F(rng.randint(-5, 5)) for _ in range(n)]
                ts = axis(rng.choice([0, 1700000000]) * NS, [rng.choice([1, 2, 60]) for _ in range(m - 1)]) if m else []
                add(xs, ts, rng.choice([F(0), F(1, 2), F(1)]))
    # 6. outside the domain: decreasing whole-second steps (model must still follow the code)
    for _ in range(100):
        n = rng.randint(2, 6)
        ts = axis(1700000000 * NS, [rng.choice([-1, -2, -60, 1, 2]) for _ in range(n - 1)])
        xs = [None if rng.random() < 0.1 else F(rng.randint(-5, 5)) for _ in range(n)]
        add(xs, ts, rng.choice([F(0), F(1, 2), F(1)]))
    # 7. negative thresholds (every defined rate exceeds them; the code also flags the first point)
    for xs in series_cases([None, F(0), F(2)], 3, rng):
        n = len(xs)
        ts = axis(rng.choice([0, 1700000000 * NS]), [rng.choice([1, 2, 60]) for _ in range(n - 1)]) if n else []
        for thr in (F(-1), -G):
            add(xs, ts, thr)
    # 8. hairline rates: the rate exceeds (or misses) the threshold by 2^-30 / 2^-20: no tolerance band around it
    for _ in range(150 if thorough else 60):
        thr = F(rng.choice([0, F(1, 2), 1, 2, 100]))
        e = F(1, 2 ** rng.choice([30, 30, 20])) * rng.choice([1, 1, -1, 0])
        if thr + e < 0:
            e = -e
        dt = rng.choice([1, 1, 2])
        a = F(rng.choice([0, 5, -3]))
        xs = [a, a + rng.choice([1, -1]) * (thr + e) * dt, None][: rng.choice([2, 3])]
        add(xs, axis(rng.choice([0, 1700000000 * NS]), [dt] * (len(xs) - 1)), thr)
    # 9. a change of exactly threshold x elapsed seconds over steps that are not powers of two (3, 5, 10, 45, 600 s ...):
    #    the quotient dx / dt is the threshold exactly (no flag), a product with a rounded reciprocal is not
    for _ in range(200 if thorough else 80):
        thr = F(rng.choice([F(1, 2), 1, F(3, 2), 3, 5, F(3, 8)]))
        n = rng.randint(2, 6)
        steps = [rng.choice([3, 5, 7, 10, 20, 45, 90, 300, 600, 86400, 259200]) for _ in range(n - 1)]
        xs = [F(rng.choice([0, 5, -3]))]
        for s in steps:
            xs.append(xs[-1] + rng.choice([1, -1]) * thr * s)
        add(xs, axis(rng.choice([0, 1700000000 * NS]), steps), thr)
    cases += big_shift_copies(cases, "xs", rng, 150 if tier == "quick" else 1500, lambda c: len(c["xs"]) == len(c["ts_ns"]))
    return cases


# ------------------------------------------------------------------ speed_test

def geod_m(lat1, lon1, lat2, lon2):
    """geographiclib distance in metres, exactly as a Fraction of the returned double"""
    from geographiclib.geodesic import Geodesic

    return F(Geodesic.WGS84.Inverse(float(lat1), float(lon1), float(lat2), float(lon2))["s12"])


def hops(lon, lat):
    """[(i, key, dist)] for every i >= 1 whose four coordinates are present"""
    out = []
    for i in range(1, min(len(lon), len(lat))):
        k = (lat[i - 1], lon[i - 1], lat[i], lon[i])
        if any(v is None for v in k):
            continue
        out.append((i, k, geod_m(*k)))
    return out


class Speed(Adapter):
    name = "speed_test"
    imports = ["Base", "Rate"]

    def impl(self, case):
        from ioos_qc import argo

        kw = {"lon": core.to_float_array([unfr(x) for x in case["lon"]]),
              "lat": core.to_float_array([unfr(x) for x in case["lat"]]),
              "tinp": times_arg(case["ts_ns"], case["kind"]),
              "suspect_threshold": float(unfr(case["st"])),
              "fail_threshold": float(unfr(case["ft"]))}
        return core.call_impl(argo.speed_test, kw)

    def _expr(self, case, fn):
        lon = [unfr(x) for x in case["lon"]]
        lat = [unfr(x) for x in case["lat"]]
        table = {}
        for _, k, d in hops(lon, lat):
            table[k] = d
        tb = clist([f"(({q(k[0])}, {q(k[1])}, {q(k[2])}, {q(k[3])}), {q(d)})" for k, d in table.items()])
        return (f"({fn} (geod_of_table {tb}) {q(unfr(case['st']))} {q(unfr(case['ft']))} "
                f"{obs_list(lon)} {obs_list(lat)} {zlist(case['ts_ns'])})")

    def model(self, case):
        return self._expr(case, "speed_model")

    def spec(self, case):
        return self._expr(case, "speed_spec")

    def in_domain(self, case):
        return increasing_whole(case["ts_ns"])


def exact_speeds(lon, lat, ts_ns):
    """[(i, exact rational speed, float quotient is exact?)]"""
    out = []
    for i, _, d in hops(lon, lat):
        if i >= len(ts_ns):
            continue
        dt = (ts_ns[i] - ts_ns[i - 1]) // NS
        if dt == 0:
            continue
        s = abs(d / dt)
        out.append((i, s, F(float(d) / float(dt)) == d / dt))
    return out


def thresholds_safe(thrs, speeds):
    """every threshold is either far (relative 2^-20) from every exact speed or exactly equal to one
    whose float quotient is exact"""
    for t in thrs:
        for _, s, exact in speeds:
            if t == s:
                if not exact:
                    return False
            elif abs(t - s) < F(1, 2 ** 20) * max(abs(t), abs(s)):
                return False
    return True


def pick_threshold(rng, speeds):
    """a float threshold (as Fraction)"""
    mode = rng.random()
    if speeds and mode < 0.3:  # exactly the speed of a hop whose float quotient is exact
        ex = [s for _, s, e in speeds if e]
        if ex:
            return rng.choice(ex)
    if speeds and mode < 0.8:  # just above / below the speed of a hop
        s = rng.choice(speeds)[1]
        return F(float(s * (1 + rng.choice([-1, 1]) * F(1, 2 ** rng.choice([8, 10, 16])))))
    return rng.choice([F(0), F(1, 2), F(3), F(100), F(2500), F(10 ** 6), F(-1)])


LATS = [F(0), F(10), F(91, 2), F(-133, 4), F(60), F(89), F(-75)]
LONS = [F(0), F(50), F(-241, 2), F(179), F(-719, 4), F(10)]


def random_track(rng, n):
    lat, lon = [rng.choice(LATS)], [rng.choice(LONS)]
    for _ in range(n - 1):
        r = rng.random()
        if r < 0.1:      # stay
            dla, dlo = F(0), F(0)
        elif r < 0.25:   # jump
            dla, dlo = F(rng.randint(-640, 640), 64), F(rng.randint(-1280, 1280), 64)
        elif r < 0.5:    # meridional only / zonal only (asymmetric in lat <-> lon)
            dla, dlo = (F(rng.randint(-64, 64), 64), F(0)) if rng.random() < 0.5 else (F(0), F(rng.randint(-64, 64), 64))
        else:
            dla, dlo = F(rng.randint(-8, 8), 64), F(rng.randint(-32, 32), 64)
        la = max(F(-90), min(F(90), lat[-1] + dla))
        lo = lon[-1] + dlo
        if lo > 180:
            lo -= 360
        if lo < -180:
            lo += 360
        lat.append(la)
        lon.append(lo)
    return lon, lat


def gen_speed(tier, rng):
    cases = []
    thorough = tier != "quick"

    def add(lon, lat, ts_ns, st, ft, kind=None):
        start = ts_ns[0] if ts_ns else 0
        cases.append({"lon": frs(lon), "lat": frs(lat), "ts_ns": [int(t) for t in ts_ns],
                      "st": core.fr(st), "ft": core.fr(ft), "kind": kind or pick_kind(rng, start)})

    def add_with_thresholds(lon, lat, ts, k=1):
        sp = exact_speeds(lon, lat, ts)
        done = 0
        for _ in range(40):
            st, ft = pick_threshold(rng, sp), pick_threshold(rng, sp)
            if rng.random() < 0.6 and st > ft:
                st, ft = ft, st
            if thresholds_safe([st, ft], sp):
                add(lon, lat, ts, st, ft)
                done += 1
                if done >= k:
                    return

    # 1. exhaustive missing patterns (lon and lat independently) on short asymmetric tracks
    tracks = [
        ([F(50), F(50), F(51), F(51)], [F(10), F(60), F(60), F(61)]),      # lon, lat
        ([F(0), F(1), F(1), F(3)], [F(0), F(0), F(2), F(2)]),
        ([F(179), F(-179), F(-179), F(179)], [F(89), F(89), F(-75), F(-75)]),
    ]
    L = 4 if thorough else 3
    for lon0, lat0 in tracks:
        for n in range(0, L + 1):
            for pat in itertools.product([0, 1, 2, 3], repeat=n):   # bit0: lon missing, bit1: lat missing
                lon = [None if p & 1 else lon0[i] for i, p in enumerate(pat)]
                lat = [None if p & 2 else lat0[i] for i, p in enumerate(pat)]
                steps = [rng.choice([1, 2, 60, 900]) for _ in range(max(n - 1, 0))]
                ts = axis(rng.choice([0, 1700000000 * NS]), steps) if n else []
                add_with_thresholds(lon, lat, ts, k=2)
    # 2. random tracks, irregular axes, thresholds on / around the speeds
    for _ in range(4000 if thorough else 1200):
        n = rng.randint(2, 9)
        lon, lat = random_track(rng, n)
        pm = rng.choice([0, 0, 0.1, 0.3])
        lon = [None if rng.random() < pm else v for v in lon]
        lat = [None if rng.random() < pm else v for v in lat]
        start = rng.choice([0, 1700000000, 946684799]) * NS + rng.choice([0, 0, 0, 123456789])
        ts = axis(start, [rng.choice(STEPS if rng.random() < 0.6 else [1, 2]) for _ in range(n - 1)])
        add_with_thresholds(lon, lat, ts)
    # 3. every kind of time argument, multi-day steps
    for kind in KINDS:
        lon, lat = [F(0), F(1), F(1), F(2), F(2)], [F(0), F(0), F(1), F(1), F(1)]
        ts = axis(1700000000 * NS, [86400, 172800, 2, 1])
        sp = exact_speeds(lon, lat, ts)
        for st, ft in [(sp[2][1], sp[2][1] * 2), (sp[0][1] / 2, sp[2][1]), (F(1), F(2)), (F(2), F(1))]:
            st, ft = F(float(st)), F(float(ft))
            if thresholds_safe([st, ft], sp):
                add(lon, lat, ts, st, ft, kind)
        add([], [], [], F(1), F(2), kind)
        add([F(1)], [F(1)], [7 * NS], F(1), F(2), kind)
        add([None], [None], [7 * NS], F(1), F(2), kind)
        add([None], [F(3)], [7 * NS], F(1), F(2), kind)
    # 4. mismatched lengths
    for a, b, c in itertools.product(range(0, 4), repeat=3):
        if a == b == c:
            continue
        lon, lat = random_track(rng, 4)
        ts = axis(0, [1, 2, 60])
        add(lon[:a], lat[:b], ts[:c], F(1), F(2))
    return cases
