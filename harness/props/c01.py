"""C01 — every QC test is a total, pure map from a series to one valid flag per point."""
import adapters
import crosscut as cc

PID = "C01"
MODEL_TARGETS = cc.ALL_MODELS
PROPS_TARGETS = ["Props_C01"]
TRUSTED_BASE = ["partial: non-mutation of the caller's arrays and the absence of hidden state are facts about Python runtime "
                "objects that a Gallina model cannot exhibit; they are decided by the harness (bit-level snapshots of every "
                "argument before/after each call; every call repeated later in a shuffled, interleaved history), not by a theorem",
                "numpy/pandas semantics of each test are modelled (see the per-test properties C03, C08-C14)"]
ASSUMPTIONS = ["valid parameters as stated in the hypotheses of the C01_* theorems (2-element spans with suspect inside fail, "
               "known method / check_type names, 4-element bbox, equal lengths, strictly increasing whole-second time axes, "
               "non-negative thresholds / durations)"]


def run(ctx):
    rng, tier = ctx["rng"], ctx["tier"]
    reg = cc.registry()
    k = 250 if tier == "quick" else 2500
    tied = cc.tie(reg, tier, rng, k, ctx)
    results = []
    for name, ad, cs, r in tied:
        # totality on the implementation: a valid call must return flags, one per input element
        for c, canon in zip(cs, r["canon"]):
            fl = cc.flags_of(canon)
            n = cc.input_length(name, c)
            if canon.startswith("R:"):
                pass   # a specified rejection (the Coq model raises too, else the correspondence reports it)
            elif fl is not None and n is not None and len(fl) != n:
                r["failures"].append({"kind": "predicate", "function": name, "case": c, "impl": canon,
                                      "clause": f"{len(fl)} flags for {n} input elements"})
        # whole-number series given integer-typed
        n_int = 0
        for c in cc.sample(cs, 60 if tier == "quick" else 600, rng):
            n, fails = cc.integer_series_failures(name, ad, c)
            n_int += n
            r["failures"] += fails
        r["evaluations"] += n_int
        results.append(r)
        # the same series in the other forms the property names (lists / tuples with None or NaN, object arrays and
        # columns holding None, masked arrays, Series, dask, narrow integers): one flag per element, the same flags
        results.append(cc.carrier_block(ad, cs, tier, rng))
    n_hist, fails, samples = cc.interleaved_history(reg, tier, rng, 60 if tier == "quick" else 600)
    results[0]["failures"] += fails
    results[0]["evaluations"] += n_hist
    results[0]["samples"] = samples + results[0]["samples"]
    n_obj, fails_obj = cc.clim_object_history(tier, rng, 120 if tier == "quick" else 1200)
    results[0]["failures"] += fails_obj
    results[0]["evaluations"] += n_obj
    n_buf, fails_buf, reused = cc.shared_buffer_history(reg, tier, rng, 40 if tier == "quick" else 400)
    results[0]["failures"] += fails_buf
    results[0]["evaluations"] += n_buf
    out = adapters.merge(
        results,
        rule="per test (all 11 functions of qartod, argo, axds): a random sample of the in-domain generated cases of the "
             "per-test properties (lengths 0,1,2,... and every missing placement included), each call snapshotted before/"
             "after (purity), 15% repeated later, implementation vs Coq model; plus one interleaved history mixing all "
             "tests, executed twice in different orders; plus ClimatologyConfig OBJECTS reused across calls with other "
             "series (flags equal to fresh calls, object state unchanged); plus whole-number series passed integer-typed (list of ints, int32, int64); plus a history in which the "
             "caller passes the SAME array objects to successive calls, overwritten in place between calls. non-trivial = >=2 distinct flags or raises")
    out["distribution"]["interleaved_history_calls"] = n_hist
    out["distribution"]["buffer_reuse_calls"] = n_buf
    out["distribution"]["buffers_overwritten_in_place"] = reused
    return out
