"""C14 — location flags follow bounding-box membership and hop distance."""
import adapters
import fn_location as fl

PID = "C14"
MODEL_TARGETS = ["Generated", "Location"]
PROPS_TARGETS = ["Props_C14"]
TRUSTED_BASE = ["geographiclib WGS84 inverse is a Section variable `geod` about which nothing is assumed; for evaluation "
                "it is instantiated by the finite table of hop distances the harness computes with geographiclib directly",
                "modelled, not verified: numpy masked comparisons (False on a missing operand), np.vectorize over masked "
                "inputs, geographiclib returning NaN for a NaN coordinate"]
ASSUMPTIONS = ["coordinates on the dyadic grid; range_max >= 0 or absent (a negative distance threshold is outside the "
               "property's valid parameters: the code then flags the first position SUSPECT — refuted in Coq, "
               "C14_negative_range_refuted); range_max not within 2^-20 relative of a hop distance unless exactly equal"]


def run(ctx):
    def gen(tier, rng):
        return [c for c in fl.gen_location(tier, rng) if fl.Location().in_domain(c)]
    import crosscut as cc
    return adapters.simple_run(
        ctx, [(fl.Location(), gen)], blocks=(cc.layout_block, cc.reuse_block, cc.carrier_block, cc.fine_block),
        rule="tracks n<=3 (thorough 4) over positions inside / on each edge / outside the box, antimeridian-adjacent "
             "longitudes, all independent missing patterns in lon and lat, default/custom/degenerate boxes, range_max in "
             "{None, tiny, between hops, exactly a hop, huge}; n=0,1; shape mismatch and bad bbox arity. "
             "non-trivial = >=2 distinct flags or raises")


def replay(payload):
    return adapters.simple_replay({"location_test": fl.Location()}, payload)
