"""C05 — running a config through any stream equals calling each test on its window rows."""
import adapters
import core
import fn_callrun as fcr
import fn_stream as fs

PID = "C05"
MODEL_TARGETS = ["Stream", "StreamProbe", "CallRun"]
PROPS_TARGETS = ["Props_C05"]
TRUSTED_BASE = ["modelled, not verified: pandas boolean row selection and .loc label assignment, numpy boolean "
                "indexing, xarray .sel(time=slice(a, b)) (end-inclusive), Config.contexts grouping (distinct windows), "
                "inspect.signature filtering in Call.run; the probe tests registered at run time (setattr on "
                "ioos_qc.qartod inside the harness process) and their Coq twin StreamProbe.probe"]
ASSUMPTIONS = ["window bounds are naive datetimes; time axes strictly increasing whole seconds",
               "NumpyStream is given a dict of equally shaped 1-D arrays; xarray/netcdf datasets have one dimension `time`"]


def sig_xarray(f):
    # F9 changes WHICH rows a context covers; it never makes a run raise (an exception is a different failure)
    return f.get("function", "").startswith("stream_run") and fs.xarray_deviates(f.get("case", {})) \
        and not str(f.get("impl", "")).startswith("R:")


SIGNATURES = {"xarray_window_inclusive_or_half_open_ignored": sig_xarray}


def qcconfig_failures(rng, count):
    """QcConfig.run (single stream) == the test called directly on all rows"""
    import logging
    import warnings

    import numpy as np
    from ioos_qc.config import QcConfig

    fs.register()
    logging.disable(logging.CRITICAL)
    fails, n_eval = [], 0
    for _ in range(count):
        n = rng.randint(0, 6)
        time, col = fs.gen_table(rng, n)
        vals, zs = col(), col()
        p = rng.randint(0, 4)
        cfgd = {"qartod": {"probe_test": {"p": p}, "probe_needs_z": {"p": p + 1}}}
        kw = {"inp": fs._vals(vals), "tinp": fs._times({"time": time}), "zinp": fs._vals(zs)}
        n_eval += 1
        try:
            with warnings.catch_warnings():
                warnings.simplefilter("ignore")
                res = QcConfig(cfgd).run(**kw)
            got = {t: core.canon_flags(a) for t, a in res["qartod"].items()}
        except Exception as e:  # noqa: BLE001
            got = core.canon_exc(e)
        want = {"probe_test": core.canon_flags(fs.probe_test(p=p, **kw)),
                "probe_needs_z": core.canon_flags(fs.probe_needs_z(p=p + 1, **kw))}
        if got != want:
            fails.append({"kind": "predicate", "function": "QcConfig.run", "case": {"vals": vals, "z": zs, "time": time, "p": p},
                          "impl": got, "direct": want, "clause": "QcConfig.run differs from the direct call"})
    return n_eval, fails


def run(ctx):
    rng, tier = ctx["rng"], ctx["tier"]
    cases = fs.gen_stream(tier, rng)
    r1 = adapters.run_adapter(fs.StreamRun(), cases, rng, repeat_frac=0.05)
    r2 = adapters.run_adapter(fs.StreamSpec(), cases, rng, repeat_frac=0)
    for f in r2["failures"]:
        f["kind"] = "predicate"
        f["clause"] = "front end differs from the specification: tests called on rows with starting <= t < ending"
    extra = []
    for c in cases[:: (2 if tier == "quick" else 1)]:
        if not fs.xarray_deviates(c):
            extra += fs.direct_call_failures(c)
    r3 = adapters.run_adapter(fcr.CallRunAdapter(), fcr.gen_callrun(tier, rng), rng)
    nq, fq = qcconfig_failures(rng, 60 if tier == "quick" else 600)
    n_re, f_re = fs.object_reuse_failures(rng, 40 if tier == "quick" else 400)
    fq += f_re
    nq += n_re
    # records without a time stamp (NaT): they satisfy no bound, so they belong only to contexts without window
    nat = fs.gen_nat_cases(tier, rng)
    for c in nat:
        fq += fs.collected_rows_failures(c)
    nq += len(nat)
    # a depth / position column that is itself quality-controlled (the column is data and axis at once)
    axs = fs.gen_axis_stream_cases(tier, rng)
    for c in axs:
        fq += fs.collected_rows_failures(c)
    nq += len(axs)
    r1["failures"] += extra + fq
    r1["evaluations"] += nq
    return adapters.merge(
        [r1, r2, r3],
        rule="Call.run with generated test signatures (positional-or-keyword / required / keyword-only / **kwargs) x "
             "configured and passed keyword arguments (colliding names: passed wins) vs CallRun.v; random programs: tables of 0-6 rows (time present/absent, z/lat/lon present/absent, 1-2 data columns, pandas "
             "index default/offset/reversed/shuffled) x 1-3 contexts (a window may be listed again later: A, B, A) with windows (none, closed, start-only, "
             "end-only, empty, all-covering, a row exactly at `ending`) x 1-2 streams (+ absent stream id) x 1-2 probe "
             "tests each, on PandasStream, NumpyStream, NetcdfStream, XarrayStream; each run compared with the Coq model "
             "of that front end, with the Coq specification, and with the probe called directly on the window rows; plus "
             "QcConfig.run vs direct calls. non-trivial = n >= 2 rows",
    )
