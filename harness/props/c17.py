"""C17 — flags ignore value/time offsets and depend only on the local neighbourhood."""
import adapters
import crosscut as cc

PID = "C17"
MODEL_TARGETS = cc.ALL_MODELS
PROPS_TARGETS = ["Props_C17"]
SUPPORT_TARGETS = ["FloatExact"]
TRUSTED_BASE = ["numpy semantics of each test are modelled (per-test properties)"]
ASSUMPTIONS = ["values on the dyadic grid so that the transformations are exact in float64 (the property states this "
               "restriction itself); offsets are grid values / whole seconds",
               "locality of hop distance / speed and the climatology joint shift are covered by the Coq theorems only (a "
               "perturbed position needs new geodesic distances)"]
TESTS = ["gross_range_test", "valid_range_test", "spike_test", "rate_of_change_test", "speed_test",
         "density_inversion_test", "flat_line_test", "attenuated_signal_test"]


def run(ctx):
    rng, tier = ctx["rng"], ctx["tier"]
    reg = [r for r in cc.registry() if r[0] in TESTS]
    tied = cc.tie(reg, tier, rng, 150 if tier == "quick" else 1500, ctx)
    results = []
    n_rel = 0
    for name, ad, cs, r in tied:
        pool = cc.domain_cases(name, ad, next(g for n, a, g in reg if n == name), tier, rng)
        for c in cc.sample(pool, 200 if tier == "quick" else 2000, rng):
            n, fails = cc.c17_failures(name, ad, c, rng)
            n_rel += n
            r["failures"] += fails
            r["evaluations"] += n
        results.append(r)
    # sub-second, irregular axes for rate of change: model correspondence + arbitrary time shifts
    import fn_rate
    roc = fn_rate.Roc()
    sub = cc.roc_subsecond_cases(rng, 150 if tier == "quick" else 1500)
    rsub = adapters.run_adapter(roc, sub, rng, repeat_frac=0)
    n_sh, f_sh = cc.roc_time_shift_failures(roc, sub, rng)
    rsub["failures"] += f_sh
    rsub["evaluations"] += n_sh
    results.append(rsub)
    # times given as (fractional) epoch seconds: shifting all of them by a constant - sub-second constants included -
    # leaves the flags unchanged (flat line on axes with steps 0.25 .. 2.5 s; every shifted stamp is a float exactly)
    import copy
    import core
    import fn_flat as ff
    flat = ff.FlatLine()
    frc = ff.gen_flat_fractional(tier, rng)
    frc = frc[: (60 if tier == "quick" else 600)]
    f_ep, n_ep = [], 0
    tr, applied = cc.carrier_transform(None, "epoch_s_array", None)
    for c in frc:
        core.KW_TRANSFORM = tr
        try:
            applied["n"] = 0
            base, _ = flat.impl(c)
            if not applied["n"]:
                continue
            for shift_ms in (250, 500, 750, 1000, 3600250, 86400500):
                d = copy.deepcopy(c)
                d["ts"] = [t + shift_ms * 10 ** 6 for t in c["ts"]]
                applied["n"] = 0
                got, _ = flat.impl(d)
                if not applied["n"]:
                    continue
                n_ep += 1
                if got != base:
                    f_ep.append({"kind": "predicate", "function": "flat_line_test",
                                 "case": {"original": c, "shift_ms": shift_ms, "time_carrier": "epoch seconds (float array)"},
                                 "impl": base, "impl_transformed": got,
                                 "clause": "flags not invariant under a shift of all timestamps (times given as epoch seconds)"})
                    break
        finally:
            core.KW_TRANSFORM = None
    results.append({"evaluations": n_ep, "distinct_nontrivial": n_ep, "failures": f_ep, "errors": [], "samples": [],
                    "distribution": {"epoch_second_time_shifts": n_ep}})
    out = adapters.merge(
        results,
        rule="per test: sampled in-domain cases transformed by a value offset, negation, time offset, joint data+span "
             "offset, reversal (spike) and a single-point perturbation at a random position; on the implementation the flags "
             "must be unchanged (reversed for reversal; unchanged outside the test's neighbourhood for the perturbation); "
             "plus implementation vs Coq model on a sample. non-trivial = >=2 distinct flags or raises")
    out["distribution"]["transformed_runs"] = n_rel
    return out
