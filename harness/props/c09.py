"""C09 — spike flags compare each interior point with its two neighbours only."""
import adapters
import fns

PID = "C09"
MODEL_TARGETS = ["Spike"]
PROPS_TARGETS = ["Props_C09"]
SUPPORT_TARGETS = ["FloatExact"]
TRUSTED_BASE = ["modelled, not verified: numpy masked arithmetic (a result is masked where an operand is) and "
                "boolean-mask assignment; np.ma.diff; np.minimum"]
ASSUMPTIONS = ["values and thresholds on the dyadic grid (floats == rationals)",
               "series length >= 1 for C09 (the empty series is covered under C01)"]


def far_single_cases(tier, rng):
    """series of single-precision numbers near 2^24 (spacing 2 above it, 1 below): every value is a float32, but the
    sum, midpoint or difference of two neighbours need not be - the spike measure is defined on the values given"""
    from fractions import Fraction as F
    import core
    out = []
    for _ in range(120 if tier == "quick" else 1200):
        n = rng.randint(3, 7)
        off = 2 ** 24
        xs = [F(off + rng.choice([0, 2, 4, 6, 10, -1, -3])) for _ in range(n)]
        st = F(rng.choice([1, 2, 3])) / rng.choice([1, 2])
        out.append({"xs": fns.frs(xs), "method": rng.choice(["average", "differential"]),
                    "st": core.fr(st), "ft": core.fr(st + F(rng.choice([1, 2, 4])) / 2)})
    return out


def far_single_block(ad, cases):
    """the flags of the float64 call (compared with the model by the run) are also those of the float32 call"""
    import core
    import crosscut as cc
    fails, n_eval = [], 0
    for c in cases:
        base, _ = ad.impl(c)
        tr, applied = cc.carrier_transform("float32", None, None)
        core.KW_TRANSFORM = tr
        try:
            got, _ = ad.impl(c)
        finally:
            core.KW_TRANSFORM = None
        if not applied["n"]:
            continue
        n_eval += 1
        if got != base:
            fails.append({"kind": "predicate", "function": ad.name, "case": c, "impl": base, "impl_carrier": got,
                          "carrier": {"data": "float32"},
                          "clause": "single-precision numbers near 2^24: flags differ when the series is given as a "
                                    "float32 array (the spike measure must be computed on the values given, in double "
                                    "precision)"})
    return {"evaluations": n_eval, "distinct_nontrivial": n_eval, "failures": fails, "errors": [], "samples": [],
            "distribution": {"float32_series_near_2^24": n_eval}}


def run(ctx):
    rng, tier = ctx["rng"], ctx["tier"]
    import crosscut as cc
    cases = fns.gen_spike(tier, rng)
    r = adapters.run_adapter(fns.Spike(), cases, rng)
    blocks = [r, cc.layout_block(fns.Spike(), cases, tier, rng), cc.reuse_block(fns.Spike(), cases, tier, rng),
              cc.carrier_block(fns.Spike(), cases, tier, rng), cc.fine_block(fns.Spike(), cases, tier, rng)]
    far = far_single_cases(tier, rng)      # after the other blocks: their random streams stay as they were
    blocks += [adapters.run_adapter(fns.Spike(), far, rng), far_single_block(fns.Spike(), far)]
    return adapters.merge(
        blocks,
        rule="all series of length<=3 (thorough 4) over {missing,0,1,2,5/2,4} x both methods x thresholds "
             "{None,0,1,2}^2 (incl. fail<suspect, d exactly on a threshold); random series length 4..9; bad method names; "
             "single-precision series near 2^24 as float64 (vs model) and as float32 arrays (vs the float64 call). "
             "non-trivial = >=2 distinct flags or raises",
        exhaustive=False,
    )


def replay(payload):
    import core
    ad = fns.Spike()
    canon, mutated = ad.impl(payload["case"])
    mism, errs = core.eval_cases("replay", ad.imports, ad.rtype, ad.eqb, [(ad.model(payload["case"]), "(Raises OtherError)")])
    return {"impl": canon, "model": ad.printed_to_canon(mism.get(0, "?")), "mutated": mutated, "errors": errs}
