"""C09 — spike flags compare each interior point with its two neighbours only."""
import adapters
import fns

PID = "C09"
MODEL_TARGETS = ["Spike"]
PROPS_TARGETS = ["Props_C09"]
SUPPORT_TARGETS = ["FloatExact"]
TRUSTED_BASE = ["modelled, not verified: numpy masked arithmetic (a result is masked where an operand is) and "
                "boolean-mask assignment; np.ma.diff; np.minimum"]
ASSUMPTIONS = ["values and thresholds on the dyadic grid (floats == rationals)",
               "series length >= 1 for C09 (the empty series is covered under C01)"]


def run(ctx):
    rng, tier = ctx["rng"], ctx["tier"]
    import crosscut as cc
    cases = fns.gen_spike(tier, rng)
    r = adapters.run_adapter(fns.Spike(), cases, rng)
    return adapters.merge(
        [r, cc.layout_block(fns.Spike(), cases, tier, rng), cc.reuse_block(fns.Spike(), cases, tier, rng),
         cc.carrier_block(fns.Spike(), cases, tier, rng), cc.fine_block(fns.Spike(), cases, tier, rng)],
        rule="all series of length<=3 (thorough 4) over {missing,0,1,2,5/2,4} x both methods x thresholds "
             "{None,0,1,2}^2 (incl. fail<suspect, d exactly on a threshold); random series length 4..9; bad method names. "
             "non-trivial = >=2 distinct flags or raises",
        exhaustive=False,
    )


def replay(payload):
    import core
    ad = fns.Spike()
    canon, mutated = ad.impl(payload["case"])
    mism, errs = core.eval_cases("replay", ad.imports, ad.rtype, ad.eqb, [(ad.model(payload["case"]), "(Raises OtherError)")])
    return {"impl": canon, "model": ad.printed_to_canon(mism.get(0, "?")), "mutated": mutated, "errors": errs}
