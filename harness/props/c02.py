"""C02 — a missing observation is never reported as evaluated."""
import adapters
import crosscut as cc

PID = "C02"
MODEL_TARGETS = cc.ALL_MODELS
PROPS_TARGETS = ["Props_C02"]
TRUSTED_BASE = ["numpy masked-array semantics of each test are modelled (per-test properties)"]
ASSUMPTIONS = ["tests that document missing-data handling: the eight qartod tests, speed_test, valid_range_test; in-domain "
               "parameters as in the per-test properties"]
TESTS = ["gross_range_test", "valid_range_test", "spike_test", "rate_of_change_test", "speed_test", "location_test",
         "density_inversion_test", "flat_line_test", "attenuated_signal_test", "climatology_test"]


def run(ctx):
    rng, tier = ctx["rng"], ctx["tier"]
    reg = [r for r in cc.registry() if r[0] in TESTS]
    tied = cc.tie(reg, tier, rng, 300 if tier == "quick" else 3000, ctx)
    results = []
    n_missing = 0
    for name, ad, cs, r in tied:
        for c, canon in zip(cs, r["canon"]):
            r["failures"] += cc.c02_failures(name, c, canon)
            n_missing += sum(1 for k in ("xs", "rho", "z", "lon", "lat") for v in c.get(k, []) if v is None)
        results.append(r)
    # repeated / sub-second timestamps: a zero whole-second step makes numpy.ma mask the quotient; the positions
    # involved are all present, so nothing there may be reported MISSING (implementation only: the functional
    # properties C10 do not define a rate over zero elapsed seconds, the models are not consulted)
    import copy
    zero_fail, zero_eval = [], 0
    for name, ad, cs, r in tied:
        key = {"rate_of_change_test": "ts_ns", "speed_test": "ts_ns"}.get(name)
        if key is None:
            continue
        for c in cc.sample([c for c in cs if len(c.get(key, [])) >= 3], 150 if tier == "quick" else 1500, rng):
            d = copy.deepcopy(c)
            ts = list(d[key])
            for _ in range(rng.randint(1, 2)):
                i = rng.randrange(1, len(ts))
                ts[i] = ts[i - 1] + rng.choice([0, 0, 250_000_000, 999_999_999])      # same second
                for j in range(i + 1, len(ts)):
                    if ts[j] <= ts[j - 1]:
                        ts[j] = ts[j - 1] + 1_000_000_000
            d[key] = ts
            d["kind"] = "dt64"                       # the only carrier of sub-second instants
            canon, _ = ad.impl(d)
            zero_eval += 1
            zero_fail += cc.c02_failures(name, d, canon)
    if zero_eval:
        results.append({"evaluations": zero_eval, "distinct_nontrivial": zero_eval, "failures": zero_fail, "errors": [],
                        "samples": [], "distribution": {"zero_step_time_axes": zero_eval}})
    # a present but impossible latitude (95 degrees): geographiclib returns NaN for the hop, yet nothing is MISSING in the
    # track - the speed is undefined, not the observation (implementation only: the models take the geodesic
    # distance as a total function)
    lat_fail, lat_eval = [], 0
    for name, ad, cs, r in tied:
        if name != "speed_test":
            continue
        for c in cc.sample([c for c in cs if len(c.get("lat", [])) >= 2], 100 if tier == "quick" else 1000, rng):
            d = copy.deepcopy(c)
            i = rng.randrange(len(d["lat"]))
            if d["lat"][i] is None:
                continue
            d["lat"][i] = rng.choice(["95", "-181/2", "100"])
            canon, _ = ad.impl(d)
            lat_eval += 1
            lat_fail += cc.c02_failures(name, d, canon)
    if lat_eval:
        results.append({"evaluations": lat_eval, "distinct_nontrivial": lat_eval, "failures": lat_fail, "errors": [],
                        "samples": [], "distribution": {"tracks_with_a_latitude_beyond_the_poles": lat_eval}})
    # missing written as None / NaN in a plain list or tuple (the form the property names): the predicate itself,
    # evaluated on the flags the implementation returns for that carrier
    import core
    lst_fail, lst_eval = [], 0
    for name, ad, cs, r in tied:
        pool = [c for c in cs if any(v is None for k in ("xs", "rho", "z", "lon", "lat") for v in c.get(k, []))]
        for c in cc.sample(pool, 60 if tier == "quick" else 600, rng):
            tr, applied = cc.carrier_transform(rng.choice(["list_none", "list_nan", "tuple_none"]), None, None)
            core.KW_TRANSFORM = tr
            try:
                canon, _ = ad.impl(c)
            finally:
                core.KW_TRANSFORM = None
            if applied["n"]:
                lst_eval += 1
                lst_fail += cc.c02_failures(name, c, canon)
    if lst_eval:
        results.append({"evaluations": lst_eval, "distinct_nontrivial": lst_eval, "failures": lst_fail, "errors": [],
                        "samples": [], "distribution": {"list_and_tuple_inputs_with_None_or_NaN": lst_eval}})
    # the same series as a 2-D array, in C and in Fortran memory order: a flag must stay on ITS element
    nd_fail, nd_eval = [], 0
    for name, ad, cs, r in tied:
        if name not in cc.ND_TESTS:
            continue
        pool = [c for c in cs if (cc.input_length(name, c) or 0) >= 4 and (cc.input_length(name, c) or 1) % 2 == 0]
        for c in cc.sample(pool, 40 if tier == "quick" else 400, rng):
            n, f = cc.nd_layout_failures(name, ad, c)
            nd_eval += n
            nd_fail += f
    if nd_eval:
        results.append({"evaluations": nd_eval, "distinct_nontrivial": nd_eval, "failures": nd_fail, "errors": [],
                        "samples": [], "distribution": {"two_dimensional_inputs_C_and_F_order": nd_eval}})
    out = adapters.merge(
        results,
        rule="per test: a random sample of the in-domain generated cases (which enumerate every placement of missing values "
             "for n<=3..6 and every climatology member shape); implementation vs Coq model, and the property evaluated "
             "directly on the implementation's flags (missing -> MISSING or UNKNOWN-where-undefined; present -> MISSING only "
             "next to a needed missing value). non-trivial = >=2 distinct flags or raises")
    out["distribution"]["missing_entries_in_sampled_inputs"] = n_missing
    return out
