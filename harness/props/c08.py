"""C08 — climatology flags follow the last matching member; unmatched points are UNKNOWN."""
import adapters
import fn_clim as fcl

PID = "C08"
MODEL_TARGETS = ["Generated", "Calendar", "Climatology"]
PROPS_TARGETS = ["Props_C08"]
TRUSTED_BASE = ["modelled, not verified: numpy masked boolean arithmetic (data/mask pairs; boolean-mask assignment reads the "
                "index's data), pandas DatetimeIndex period attributes and isocalendar().week (the Coq calendar arithmetic is "
                "validated against pandas on every day of 2015-2030, thorough 1968-2040), pd.Timestamp parsing of span bounds, "
                "mapdates on the time carriers used by the generator"]
ASSUMPTIONS = ["values, depths and numeric spans on the dyadic grid; whole-second timestamps between 1968 and 2040",
               "period names restricted to the nine modelled Timestamp attributes (year, month, week, weekofyear, dayofyear, "
               "dayofweek, quarter, day, hour)"]


def run(ctx):
    import crosscut as cc
    out = adapters.simple_run(
        ctx, [(fcl.Climatology(), fcl.gen_clim), (fcl.CalendarFields(), fcl.gen_calendar)], blocks=(cc.layout_block, cc.carrier_block),
        rule="times across 2019-12-25..2021-01-05 (incl. Dec 29-Jan 3, Feb 29); depths present / missing / all missing; 0-3 "
             "overlapping members of every shape (with/without fspan, zspan) and period kind, spans in either order, values on "
             "every span boundary; several time carriers; calendar fields vs pandas on every day of 2015-2030 (thorough "
             "1968-2040). non-trivial = >=2 distinct flags or raises", with_spec=True)
    # the members given as a ClimatologyConfig OBJECT that the caller keeps and uses again on other series: each call
    # is judged by the time and depth of ITS observations
    n_obj, f_obj = cc.clim_object_history(ctx["tier"], ctx["rng"], 120 if ctx["tier"] == "quick" else 1200)
    out["failures"] += f_obj
    out["evaluations"] += n_obj
    return out


def replay(payload):
    return adapters.simple_replay({"climatology_test": fcl.Climatology(), "calendar_fields": fcl.CalendarFields()}, payload)
