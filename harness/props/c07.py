"""C07 — every equivalent spelling of a configuration yields the same set of calls."""
import adapters
import fn_config as fc

PID = "C07"
MODEL_TARGETS = ["Generated", "Config"]
PROPS_TARGETS = ["Props_C07"]
TRUSTED_BASE = ["carriers are oracles: Section hypotheses load (dump d) = Some d for YAML (ruamel safe), JSON, StringIO, "
                "file paths and xarray attributes — stated in C07_carriers_agree; the correspondence checks them empirically "
                "on every generated configuration",
                "modelled, not verified: importlib.import_module / hasattr (replaced by the tables of names the translator "
                "reads from qartod.py, argo.py, axds.py), shapely shape()/GeometryCollection, dict ordering"]
ASSUMPTIONS = ["window bounds are quoted naive ISO strings (ruamel turns unquoted timestamps into datetimes, JSON keeps "
               "strings); stream ids and module names are not literally 'contexts' / 'streams'; 'unknown test name' means a "
               "name outside the module's top-level definitions (other module attributes are out of scope)"]

SIGNATURES = fc.SIGNATURES


def run(ctx):
    rng, tier = ctx["rng"], ctx["tier"]
    cases = fc.gen_config(tier, rng)
    r1 = adapters.run_adapter(fc.ConfigCalls(), cases, rng, repeat_frac=0.05)
    r2 = adapters.run_adapter(fc.ConfigSpec(), cases, rng, repeat_frac=0)
    for f in r2["failures"]:
        f["kind"] = "predicate"
        f["clause"] = "Config(...).calls differ from the intended calls of the configuration"
    fails, evals = fc.equivalence_failures(rng, 40 if tier == "quick" else 300)
    for f in fails:
        # a tagged deviation is INSIDE the property's domain (that is what makes it a finding)
        f.pop("in_domain", None)
    r1["failures"] += fails
    r1["evaluations"] += evals
    return adapters.merge(
        [r1, r2],
        rule="generated well-formed configurations (1-3 contexts, 1-3 streams, subsets of the real qartod/argo/axds tests "
             "with scalar / span / nested climatology parameters, None/empty parameters, windows, GeoJSON regions, sprinkled "
             "unknown modules and test names) spelled in every applicable layout (contexts, streams, bare streams, bare "
             "module) and delivered through dict, OrderedDict, YAML, JSON, StringIO, str path, Path, xarray global attribute "
             "and per-variable xarray attributes; Config(...).calls compared with the Coq config_calls, with the intended "
             "calls_of W, and across carriers/layouts. non-trivial = default adapter rule")


def replay(payload):
    return adapters.simple_replay({"Config": fc.ConfigCalls(), "Config_spec": fc.ConfigSpec()}, payload)
