"""C10 — rate tests flag a point by its change from the previous point per elapsed second."""
import adapters
import fn_rate as fr

PID = "C10"
MODEL_TARGETS = ["Generated", "Rate"]
PROPS_TARGETS = ["Props_C10"]
SUPPORT_TARGETS = ["FloatExact"]
TRUSTED_BASE = ["geographiclib WGS84 inverse is a Section variable `geod` (nothing assumed), instantiated for evaluation by "
                "the table of hop distances computed with geographiclib directly (argument order lat, lon)",
                "modelled, not verified: numpy masked diff/division, timedelta64[ns]->[s] floor cast, mapdates on "
                "datetime64 / epoch seconds, boolean-mask assignment reading the data under the mask"]
ASSUMPTIONS = ["strictly increasing time axes with whole-second steps; values on the dyadic grid; thresholds >= 0 "
               "(a negative rate threshold is outside the valid parameters: refuted in Coq)",
               "speed thresholds either >= 2^-20 relative away from every hop speed or exactly equal to an exactly "
               "representable quotient"]


def _dom(ad, gen):
    def g(tier, rng):
        return [c for c in gen(tier, rng) if ad.in_domain(c) and not c.get("negative_thr")]
    return g


def run(ctx):
    roc, spd = fr.Roc(), fr.Speed()

    def gen_roc(tier, rng):
        out = []
        for c in fr.gen_roc(tier, rng):
            if not roc.in_domain(c):
                continue
            thr = c.get("thr")
            try:
                from fractions import Fraction
                if thr is not None and Fraction(thr) < 0:
                    continue
            except (TypeError, ValueError):
                pass
            out.append(c)
        return out

    def gen_speed(tier, rng):
        return [c for c in fr.gen_speed(tier, rng) if spd.in_domain(c)]
    import crosscut as cc
    out = adapters.simple_run(
        ctx, [(roc, gen_roc), (spd, gen_speed)], blocks=(cc.layout_block, cc.reuse_block, cc.carrier_block, cc.fine_block),
        rule="rate_of_change: series n<=5 over a value alphabet x time axes with steps from {1,2,60,900,86400,172800}s "
             "(irregular mixes), datetime64 and epoch-second inputs, thresholds with rates exactly on them, length "
             "mismatches; speed: tracks with asymmetric hops, independent missing patterns in lon/lat, thresholds far "
             "from / exactly on hop speeds, n=0,1,2.., length mismatches. non-trivial = >=2 distinct flags or raises")
    # decimal thresholds (0.3, 0.015, 0.7 units per second - not binary fractions) met EXACTLY: dx = threshold x dt is a
    # whole number, so the real quotient dx / dt IS the threshold; a correctly rounded division returns the very float the
    # threshold literal denotes, and equality does not flag.  (Implementation-only predicate: outside the dyadic grid of
    # the correspondence; a rate formed as dx * (1 / dt) is rounded twice and lands one ulp off.)
    import numpy as np
    from ioos_qc import qartod
    import core
    rng = ctx["rng"]
    dec_fail, dec_n = [], 0
    for thr_s, dts in (("0.3", [10, 20, 30, 90, 300]), ("0.015", [200, 600, 1000]), ("0.7", [10, 30, 90]), ("0.1", [10, 30, 70]),
                       ("1.1", [10, 20, 30, 70])):
        thr = float(thr_s)
        for _ in range(6 if ctx["tier"] == "quick" else 60):
            n = rng.randint(2, 6)
            steps = [rng.choice(dts) for _ in range(n - 1)]
            xs, t = [float(rng.choice([0, 5, -3]))], [0]
            from fractions import Fraction as Fr
            for sdt in steps:
                dx = Fr(thr_s) * sdt
                assert dx.denominator == 1
                xs.append(xs[-1] + rng.choice([1, -1]) * float(dx))
                t.append(t[-1] + sdt)
            kw = {"inp": np.array(xs), "tinp": np.array(t, dtype="int64").astype("datetime64[s]"), "threshold": thr}
            got, _ = core.call_impl(qartod.rate_of_change_test, kw)
            dec_n += 1
            want = "F:" + ",".join(["1"] * n)
            if got != want:
                dec_fail.append({"kind": "predicate", "function": "rate_of_change_test",
                                 "case": {"xs": xs, "t_seconds": t, "threshold": thr_s}, "impl": got, "spec": want,
                                 "clause": "every rate equals the threshold exactly (dx = threshold x dt): equality must not flag"})
    out["failures"] += dec_fail
    out["evaluations"] += dec_n
    # the time axis as whole epoch seconds in 32-bit / 64-bit integer arrays (the usual netCDF time types) and as a list
    ep_fail, ep_n = [], 0
    for ad_, gen_ in ((roc, gen_roc), (spd, gen_speed)):
        pool = [c for c in gen_(ctx["tier"], rng) if len(c.get("ts_ns", [])) >= 2 and all(t % 10 ** 9 == 0 for t in c["ts_ns"])]
        for c in cc.sample(pool, 40 if ctx["tier"] == "quick" else 400, rng):
            base, _ = ad_.impl(c)
            for tc in ("epoch_s_int32", "epoch_s_uint32", "epoch_s_int64", "epoch_s_list"):
                tr, applied = cc.carrier_transform(None, tc, None)
                core.KW_TRANSFORM = tr
                try:
                    got, _ = ad_.impl(c)
                finally:
                    core.KW_TRANSFORM = None
                if applied["n"]:
                    ep_n += 1
                    if got != base:
                        ep_fail.append({"kind": "predicate", "function": ad_.name, "case": c, "impl": base, "impl_carrier": got,
                                        "carrier": {"time": tc},
                                        "clause": f"flags differ when the whole-second times are given as {tc}"})
    out["failures"] += ep_fail
    out["evaluations"] += ep_n
    return out


def replay(payload):
    return adapters.simple_replay({"rate_of_change_test": fr.Roc(), "speed_test": fr.Speed()}, payload)
