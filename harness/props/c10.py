"""C10 — rate tests flag a point by its change from the previous point per elapsed second."""
import adapters
import fn_rate as fr

PID = "C10"
MODEL_TARGETS = ["Generated", "Rate"]
PROPS_TARGETS = ["Props_C10"]
SUPPORT_TARGETS = ["FloatExact"]
TRUSTED_BASE = ["geographiclib WGS84 inverse is a Section variable `geod` (nothing assumed), instantiated for evaluation by "
                "the table of hop distances computed with geographiclib directly (argument order lat, lon)",
                "modelled, not verified: numpy masked diff/division, timedelta64[ns]->[s] floor cast, mapdates on "
                "datetime64 / epoch seconds, boolean-mask assignment reading the data under the mask"]
ASSUMPTIONS = ["strictly increasing time axes with whole-second steps; values on the dyadic grid; thresholds >= 0 "
               "(a negative rate threshold is outside the valid parameters: refuted in Coq)",
               "speed thresholds either >= 2^-20 relative away from every hop speed or exactly equal to an exactly "
               "representable quotient"]


def _dom(ad, gen):
    def g(tier, rng):
        return [c for c in gen(tier, rng) if ad.in_domain(c) and not c.get("negative_thr")]
    return g


def run(ctx):
    roc, spd = fr.Roc(), fr.Speed()

    def gen_roc(tier, rng):
        out = []
        for c in fr.gen_roc(tier, rng):
            if not roc.in_domain(c):
                continue
            thr = c.get("thr")
            try:
                from fractions import Fraction
                if thr is not None and Fraction(thr) < 0:
                    continue
            except (TypeError, ValueError):
                pass
            out.append(c)
        return out

    def gen_speed(tier, rng):
        return [c for c in fr.gen_speed(tier, rng) if spd.in_domain(c)]
    import crosscut as cc
    return adapters.simple_run(
        ctx, [(roc, gen_roc), (spd, gen_speed)], blocks=(cc.layout_block, cc.reuse_block, cc.carrier_block),
        rule="rate_of_change: series n<=5 over a value alphabet x time axes with steps from {1,2,60,900,86400,172800}s "
             "(irregular mixes), datetime64 and epoch-second inputs, thresholds with rates exactly on them, length "
             "mismatches; speed: tracks with asymmetric hops, independent missing patterns in lon/lat, thresholds far "
             "from / exactly on hop speeds, n=0,1,2.., length mismatches. non-trivial = >=2 distinct flags or raises")


def replay(payload):
    return adapters.simple_replay({"rate_of_change_test": fr.Roc(), "speed_test": fr.Speed()}, payload)
