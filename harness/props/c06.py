"""C06 — collected results put every context's flags back on the right input rows."""
import adapters
import fn_collect as fc

PID = "C06"
MODEL_TARGETS = ["Collect"]
PROPS_TARGETS = ["Props_C06"]
TRUSTED_BASE = ["modelled, not verified: numpy boolean-mask assignment (length rule, single-value broadcast, "
                "IndexError on a mask/array length mismatch), np.ma.masked_all, OrderedDict / defaultdict key order"]
ASSUMPTIONS = ["ContextResults are built directly (stream_id, CallResults, subset mask, subset arrays) exactly as the "
               "stream front ends build them; an absent axis is the empty array the streams pass"]


SIGNATURES = {}


def run(ctx):
    rng, tier = ctx["rng"], ctx["tier"]
    cl = fc.gen_collect(tier, rng, "list")
    cd = fc.gen_collect(tier, rng, "dict")
    out = [adapters.run_adapter(fc.Collect(), cl, rng), adapters.run_adapter(fc.CollectDict(), cd, rng)]
    # the property itself on its domain (well-formed, disjoint windows)
    dom_l = [c for c in cl if c["wf"]]
    dom_d = [c for c in cd if c["wf"]]
    r3 = adapters.run_adapter(fc.CollectSpec(), dom_l, rng, repeat_frac=0)
    r4 = adapters.run_adapter(fc.CollectDictSpec(), dom_d, rng, repeat_frac=0)
    for r in (r3, r4):
        for f in r["failures"]:
            f["kind"] = "predicate"
            f["clause"] = "collected flags differ from 'flag of the covering context, fill value elsewhere' (or the call raised)"
    # end to end: real front ends (rows selected by the stream itself, arbitrary DataFrame index) -> collect ->
    # compare row by row with the probe called directly on each window's rows
    import fn_stream as fs
    e2e = fs.gen_stream("quick", rng, frontends=("pandas", "numpy", "netcdf", "xarray"), wforms=False)
    e2e = [c for c in e2e if not fs.xarray_deviates(c)]       # F9: XarrayStream's own window rule (known finding of C05)
    e2e = e2e if tier != "quick" else rng.sample(e2e, min(len(e2e), 250))
    fails = []
    for c in e2e:
        fails += fs.collected_rows_failures(c)
    # records without a time stamp: they belong to no windowed context (masked / UNKNOWN there), whatever the order
    nat = fs.gen_nat_cases(tier, rng)
    for c in nat:
        fails += fs.collected_rows_failures(c)
    e2e = e2e + nat
    # Config objects reused on another table / edited in place between runs (stale grouping of the calls by context)
    n_re, f_re = fs.object_reuse_failures(rng, 40 if tier == "quick" else 400)
    fails += f_re
    r5 = {"evaluations": len(e2e) + n_re, "distinct_nontrivial": sum(1 for c in e2e if c["n"] >= 2), "failures": fails,
          "errors": [], "samples": [], "distribution": {"end_to_end_stream_runs": len(e2e)}}
    return adapters.merge(
        out + [r3, r4, r5],
        rule="random sequences of 1-3 ContextResults over 0-5 rows: disjoint window layouts (incl. empty, all-covering, "
             "uncovered rows) and 15% overlapping ones, 1-2 streams, 0-2 calls per context over 3 test keys, with and "
             "without axis arrays, list and dict forms; implementation vs faithful model on all, vs the property's "
             "specification on the well-formed disjoint ones; plus end-to-end runs of the pandas / numpy / netcdf / xarray front "
             "ends (random tables, index kinds, windows, contexts) whose collected flags are compared row by row with the "
             "probe called directly on each window's rows. non-trivial = >=2 contexts or raises",
    )
