"""C11 — flat-line flags a point when the window ending at it varies less than tolerance."""
import adapters
import fn_flat as ff

PID = "C11"
MODEL_TARGETS = ["Generated", "FlatLine"]
PROPS_TARGETS = ["Props_C11"]
SUPPORT_TARGETS = ["FloatExact"]
TRUSTED_BASE = ["modelled, not verified: np.median of timedelta64 (even counts average the middle pair), the division by "
                "np.timedelta64(1, 's'), (thr / float).astype(int) truncation, np.lib.stride_tricks.as_strided of a masked array "
                "(raw data, NaN at missing), masked min/max ignoring masked entries, np.ma.filled(.., False), np.insert"]
ASSUMPTIONS = ["regularly sampled axes with any positive step (whole seconds, 1.5 / 2.5 s, 0.25 / 0.5 / 0.75 s), durations >= 0, "
               "values, tolerances, steps and durations on dyadic grids (the float quotient duration / step is then exact)"]


SIGNATURES = {}


def run(ctx):
    ad = ff.FlatLine()
    rng, tier = ctx["rng"], ctx["tier"]

    fr = ff.gen_flat_fractional(tier, rng)

    def gen(tier, rng):
        return [c for c in ff.gen_flat(tier, rng) if ad.in_domain(c)] + fr
    import crosscut as cc
    out = adapters.simple_run(
        ctx, [(ad, gen)], blocks=(cc.layout_block, cc.reuse_block, cc.carrier_block, cc.fine_block),
        rule="exhaustive n<=6 over {missing,0,1/64,2}, n<=4 over a 5-letter alphabet, random n=5..6, the full D x suspect x "
             "fail x tolerance grid on fixed series, plateaus of length k-1,k,k+1, on regular axes with D in {1,2,60,900} and, random plateaus, D in {0.25,0.5,0.75,1.5,2.5}; "
             "durations in units of D: {0, D/2, D, 1.5D, 2D, 3D, (n+1)D}; tolerance on both sides of the window range. "
             "non-trivial = >=2 distinct flags or raises")
    # the property itself (true fractional step), computed independently with exact fractions, vs the implementation
    fails = []
    for c in fr:
        got, _ = ad.impl(c)
        want = ff.property_expected(c)
        if want is not None and got != want:
            fails.append({"kind": "predicate", "function": "flat_line_test", "case": c, "impl": got, "spec": want,
                          "clause": "flags differ from the property with k = floor(threshold / D) for the true (fractional) step D"})
    out["failures"] += fails
    out["evaluations"] += len(fr)
    return out


def replay(payload):
    return adapters.simple_replay({"flat_line_test": ff.FlatLine()}, payload)
