"""C20 — generated configs evaluate their limit expressions correctly and statelessly."""
import adapters
import fn_fx as fx

PID = "C20"
MODEL_TARGETS = ["Generated", "Fx"]
PROPS_TARGETS = ["Props_C20"]
TRUSTED_BASE = ["modelled, not verified: the pyparsing matcher (the model is a token-level recursive descent over the "
                "space-separated tokens of the property's grammar), what a failing parse leaves on exprStack (an "
                "arbitrary appended list in the theorems; append-only checked at run time), Python float() (oracle table "
                "for the validator), xarray / NetCDF-3 I/O, numpy nan-statistics and scipy CubicSpline in create_config "
                "(checked only by running the real creator on synthetic constant-in-time grids)"]
ASSUMPTIONS = ["expression values are compared exactly only where float arithmetic is exact (dyadic literals and statistics, "
               "power-of-two divisors); create_config spans are compared within 1e-9 relative",
               "number literals of the theorems: unsigned decimals (digits, optional fraction)"]


SIGNATURES = {}


def run(ctx):
    rng, tier = ctx["rng"], ctx["tier"]
    r1 = adapters.run_adapter(fx.Fx(), fx.gen_fx(tier, rng), rng)
    r2 = adapters.run_adapter(fx.ValidateFx(), fx.gen_validate(tier, rng), rng)
    n = 40 if tier == "quick" else 300
    fails = fx.check_create_config(rng, n)
    for f in fails:
        f["kind"] = "predicate"
    r2["failures"] += fails
    r2["evaluations"] += fx.check_create_config.last["cases"]
    hist_fails = fx.check_creator_history(rng, 12 if tier == "quick" else 100)
    for f in hist_fails:
        f["kind"] = "predicate"
    r2["failures"] += hist_fails
    r2["evaluations"] += fx.check_creator_history.last["calls"]
    # numbers in every spelling Python's float() reads and the validator therefore accepts (scientific notation with and
    # without exponent sign, trailing point): the evaluator gives them their ordinary value, alone and inside an expression
    # (implementation-only: the Coq lexer models plain decimal numbers)
    from ioos_qc.config_creator import fx_parser
    stats = {"min": 1.0, "max": 9.0, "mean": 4.0, "std": 2.0}
    num_fail, num_n = [], 0
    for tok in ("1e+2", "2.5E+3", "1.e+1", "1e16", "1e-2", "2.5E-1", "7.", "1E2", "3e+0"):
        for expr, want in ((tok, float(tok)), (f"mean + {tok}", 4.0 + float(tok)), (f"( max - min ) / {tok}", 8.0 / float(tok))):
            num_n += 1
            try:
                got = fx_parser.eval_fx(expr, stats)
                ok = abs(float(got) - want) <= 1e-12 * max(1.0, abs(want))
                shown = repr(float(got))
            except Exception as e:  # noqa: BLE001
                ok, shown = False, f"R:{type(e).__name__}"
            if not ok:
                num_fail.append({"kind": "predicate", "function": "eval_fx", "case": {"expr": expr, "stats": stats}, "impl": shown,
                                 "spec": repr(want), "clause": "a number the validator accepts does not evaluate to its ordinary value"})
    r1["failures"] += num_fail
    r1["evaluations"] += num_n
    out = adapters.merge(
        [r1, r2],
        rule="eval_fx: HISTORIES on the real never-reset exprStack (well-formed expressions, failed parses, invalid "
             "identifiers) ending in every expression tree of depth<=3 over {2, 0.5, min, max, mean, std} x {+,-,*,/,unary -}, "
             "printed minimally and fully parenthesised; value, pushed symbols and untouched prefix compared with the Coq "
             "model and with Python eval(); validator: all token strings of <=3 tokens over a 14-token alphabet; "
             "create_config on synthetic constant-in-time NetCDF-3 grids vs the limit expressions on the in-box cells; "
             "call histories on ONE creator holding two files on different grids vs a fresh creator per call. "
             "non-trivial = default adapter rule")
    out["distribution"]["create_config"] = fx.check_create_config.last
    out["distribution"]["create_config_history"] = fx.check_creator_history.last
    return out


def _replay_create_config(payload):
    """re-run a create_config failure: rebuild the synthetic NetCDF-3 file(s) of the case and ask again"""
    import os
    import shutil
    import tempfile
    import warnings

    import numpy as np
    import pandas as pd
    import xarray as xr

    from ioos_qc.config_creator import config_creator as cc
    case = payload["case"]
    tmp = tempfile.mkdtemp(prefix="fx_replay_")

    def write(name, ncvar, g, day=15):
        vals = np.array([[np.nan if v is None else v for v in row] for row in g["values"]], dtype=float)
        time = pd.to_datetime([f"2001-{m:02d}-{day:02d}" for m in range(1, 13)])
        path = os.path.join(tmp, name + ".nc")
        xr.Dataset({ncvar: (("time", "lat", "lon"), np.broadcast_to(vals, (12,) + vals.shape).copy())},
                   coords={"time": time, "lat": np.array(g["lat"], dtype=float),
                           "lon": np.array(g["lon"], dtype=float)}).to_netcdf(path, engine="scipy")
        return path

    def ask(creator, vcfg):
        try:
            with warnings.catch_warnings():
                warnings.simplefilter("ignore")
                sec = creator.create_config(cc.QcVariableConfig(vcfg))[vcfg["variable"]]["qartod"]["gross_range_test"]
            return [float(v) for v in (sec["suspect_span"][0], sec["suspect_span"][1], sec["fail_span"][0], sec["fail_span"][1])]
        except Exception as e:  # noqa: BLE001
            return "R:" + type(e).__name__
    try:
        with warnings.catch_warnings():
            warnings.simplefilter("ignore")
            if "grids" in case:
                dsets = [{"name": n, "file_path": write(n, nc, case["grids"][v]), "variables": {v: nc}}
                         for n, v, nc in (("one", "temp", "t_an"), ("two", "salt", "s_an"))]
                shared = cc.QcConfigCreator(cc.CreatorConfig({"datasets": dsets}))
                got = [ask(shared, c) for c in case["calls"]][-1]
                want = ask(cc.QcConfigCreator(cc.CreatorConfig({"datasets": dsets})), case["calls"][-1])
                return {"impl": got, "fresh_creator": want, "recorded_impl": payload.get("impl"), "errors": []}
            path = write("clim", "t_an", case, case.get("time_day_of_month", 15))
            creator = cc.QcConfigCreator(cc.CreatorConfig(
                {"datasets": [{"name": "clim", "file_path": path, "variables": {"temp": "t_an"}}]}))
            return {"impl": ask(creator, case["config"]), "want": payload.get("want"), "recorded_impl": payload.get("impl"),
                    "errors": []}
    finally:
        shutil.rmtree(tmp, ignore_errors=True)


def replay(payload):
    if payload.get("function") == "QcConfigCreator.create_config":
        return _replay_create_config(payload)
    return adapters.simple_replay({"eval_fx": fx.Fx(), "_validate_fx": fx.ValidateFx()}, payload)
