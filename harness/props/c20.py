"""C20 — generated configs evaluate their limit expressions correctly and statelessly."""
import adapters
import fn_fx as fx

PID = "C20"
MODEL_TARGETS = ["Generated", "Fx"]
PROPS_TARGETS = ["Props_C20"]
TRUSTED_BASE = ["modelled, not verified: the pyparsing matcher (the model is a token-level recursive descent over the "
                "space-separated tokens of the property's grammar), what a failing parse leaves on exprStack (an "
                "arbitrary appended list in the theorems; append-only checked at run time), Python float() (oracle table "
                "for the validator), xarray / NetCDF-3 I/O, numpy nan-statistics and scipy CubicSpline in create_config "
                "(checked only by running the real creator on synthetic constant-in-time grids)"]
ASSUMPTIONS = ["expression values are compared exactly only where float arithmetic is exact (dyadic literals and statistics, "
               "power-of-two divisors); create_config spans are compared within 1e-9 relative",
               "number literals of the theorems: unsigned decimals (digits, optional fraction)"]


SIGNATURES = {}


def run(ctx):
    rng, tier = ctx["rng"], ctx["tier"]
    r1 = adapters.run_adapter(fx.Fx(), fx.gen_fx(tier, rng), rng)
    r2 = adapters.run_adapter(fx.ValidateFx(), fx.gen_validate(tier, rng), rng)
    n = 40 if tier == "quick" else 300
    fails = fx.check_create_config(rng, n)
    for f in fails:
        f["kind"] = "predicate"
    r2["failures"] += fails
    r2["evaluations"] += fx.check_create_config.last["cases"]
    # numbers in every spelling Python's float() reads and the validator therefore accepts (scientific notation with and
    # without exponent sign, trailing point): the evaluator gives them their ordinary value, alone and inside an expression
    # (implementation-only: the Coq lexer models plain decimal numbers)
    from ioos_qc.config_creator import fx_parser
    stats = {"min": 1.0, "max": 9.0, "mean": 4.0, "std": 2.0}
    num_fail, num_n = [], 0
    for tok in ("1e+2", "2.5E+3", "1.e+1", "1e16", "1e-2", "2.5E-1", "7.", "1E2", "3e+0"):
        for expr, want in ((tok, float(tok)), (f"mean + {tok}", 4.0 + float(tok)), (f"( max - min ) / {tok}", 8.0 / float(tok))):
            num_n += 1
            try:
                got = fx_parser.eval_fx(expr, stats)
                ok = abs(float(got) - want) <= 1e-12 * max(1.0, abs(want))
                shown = repr(float(got))
            except Exception as e:  # noqa: BLE001
                ok, shown = False, f"R:{type(e).__name__}"
            if not ok:
                num_fail.append({"kind": "predicate", "function": "eval_fx", "case": {"expr": expr, "stats": stats}, "impl": shown,
                                 "spec": repr(want), "clause": "a number the validator accepts does not evaluate to its ordinary value"})
    r1["failures"] += num_fail
    r1["evaluations"] += num_n
    out = adapters.merge(
        [r1, r2],
        rule="eval_fx: HISTORIES on the real never-reset exprStack (well-formed expressions, failed parses, invalid "
             "identifiers) ending in every expression tree of depth<=3 over {2, 0.5, min, max, mean, std} x {+,-,*,/,unary -}, "
             "printed minimally and fully parenthesised; value, pushed symbols and untouched prefix compared with the Coq "
             "model and with Python eval(); validator: all token strings of <=3 tokens over a 14-token alphabet; "
             "create_config on synthetic constant-in-time NetCDF-3 grids vs the limit expressions on the in-box cells. "
             "non-trivial = default adapter rule")
    out["distribution"]["create_config"] = fx.check_create_config.last
    return out


def replay(payload):
    return adapters.simple_replay({"eval_fx": fx.Fx(), "_validate_fx": fx.ValidateFx()}, payload)
