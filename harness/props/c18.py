"""C18 — a test that cannot run drops out without disturbing the rest of the run."""
import adapters
import fn_stream as fs

PID = "C18"
MODEL_TARGETS = ["Stream", "StreamProbe", "Collect"]
PROPS_TARGETS = ["Props_C18"]
TRUSTED_BASE = ["modelled, not verified: Call.run's try/except Exception (a raising test yields no CallResult), "
                "ContextConfig skipping unknown modules / names, the front ends skipping absent stream ids; "
                "probe tests registered at run time in the harness process and their Coq twin"]
ASSUMPTIONS = ["fault kinds generated: unknown module, unknown test name, stream id absent from the data, required "
               "time/depth input not supplied by the stream, exception raised while evaluating (always / only on "
               "windows with fewer than two rows)"]


def sig_xarray(f):
    # F9 changes WHICH rows a context covers; it never makes a run raise (an exception is a different failure)
    return f.get("function", "").startswith("stream_run") and fs.xarray_deviates(f.get("case", {})) \
        and not str(f.get("impl", "")).startswith("R:")


SIGNATURES = {"xarray_window_inclusive_or_half_open_ignored": sig_xarray}


def run(ctx):
    rng, tier = ctx["rng"], ctx["tier"]
    cases = fs.gen_stream(tier, rng, faults=True)
    r1 = adapters.run_adapter(fs.StreamRun(), cases, rng, repeat_frac=0.05)
    extra = []
    for c in cases:
        extra += fs.fault_isolation_failures(c)
    # xarray datasets with a variable on another dimension: the stream supplies no time / depth for it
    orph = fs.gen_orphan_cases(tier, rng)
    for c in orph:
        extra += fs.fault_isolation_failures(c)
    # a Config object run on a table with axes and then on one without: the tests that need the axes drop out
    n_re, f_re = fs.object_reuse_failures(rng, 40 if tier == "quick" else 400)
    extra += f_re
    # the library's own position tests (no `inp` parameter in their signatures) as the entries that cannot run
    n_pos, f_pos = fs.position_test_isolation_failures(rng, 30 if tier == "quick" else 300)
    extra += f_pos
    r1["failures"] += extra
    r1["evaluations"] += 2 * len(cases) + 2 * len(orph) + n_re + n_pos
    nfault = sum(1 for c in cases for cx in c["cfg"] for e in cx["entries"] if e["kind"] != "call" or e["fault"] or e["stream"] == "nope")
    out = adapters.merge(
        [r1],
        rule="random programs as for C05 with faulty entries sprinkled at random positions in every stream and context "
             "(unknown module / unknown test name / absent stream id / required input missing / raising while evaluating) "
             "on all four stream front ends; each run compared with the Coq front-end model, and, on the implementation, "
             "the collected results of the full configuration with those of the configuration without the failing "
             "entries. non-trivial = n >= 2 rows",
    )
    out["distribution"]["faulty_entries"] = nfault
    out["distribution"]["datasets_with_a_variable_on_another_dimension"] = len(orph)
    return out
