"""C12 — attenuated-signal flags compare the trailing window's spread with thresholds."""
import adapters
import fn_atten as fa

PID = "C12"
MODEL_TARGETS = ["Generated", "Attenuated"]
PROPS_TARGETS = ["Props_C12"]
TRUSTED_BASE = ["modelled, not verified: pandas Series.rolling('<P>s') window membership (t-P, t], min_periods counting "
                "non-NaN observations, .std() (sample, NaN below two observations), .apply(np.ptp, raw=True) (NaN as soon as "
                "the window holds a NaN), np.std / np.ptp on masked arrays, the median-step conversion of min_period",
                "standard deviation is never computed: std < thr is decided as 0 < thr /\\ variance < thr^2 (C12_std_via_variance)"]
ASSUMPTIONS = ["increasing whole-second time axes; thresholds keep |variance - thr^2| >= 1e-6 (1 + variance) except for exactly "
               "constant windows (the property excludes spreads within rounding distance of a threshold)"]


def sig_range_nan(f):
    return f.get("function", "").startswith("attenuated_signal_test") and fa.range_nan_case(f.get("case", {}))


SIGNATURES = {"attenuated_range_window_with_missing_value_is_unknown": sig_range_nan}


def run(ctx):
    rng, tier = ctx["rng"], ctx["tier"]
    ad = fa.Attenuated()
    allc = fa.gen_atten(tier, rng)
    if tier == "quick":
        # the generator is large: keep every 3rd case in the quick tier (deterministic)
        allc = allc[::3]
    dom = [c for c in allc if ad.in_domain(c)]
    nan_cases = [c for c in allc if fa.range_nan_case(c)]
    r1 = adapters.run_adapter(ad, dom + nan_cases, rng)
    r2 = adapters.run_adapter(adapters.SpecOf(ad), nan_cases, rng, repeat_frac=0)
    for f in r2["failures"]:
        f["kind"] = "predicate"
        f["clause"] = "flag differs from the decision on the spread of the OBSERVED values of the trailing window"
    return adapters.merge(
        [r1, r2],
        rule="series n<=5 over {missing,0,1,3} on regular (1 s, 60 s) and irregular axes x check types x test_period in "
             "{None, 1,2,3 steps} x min_obs x min_period x thresholds on both sides (fail>suspect included), random longer "
             "series, bad check_type; implementation vs model on the domain plus the rolling-range-with-missing class, and vs "
             "the specification on that class (known finding). non-trivial = >=2 distinct flags or raises")


def replay(payload):
    return adapters.simple_replay({"attenuated_signal_test": fa.Attenuated(), "attenuated_signal_test_spec": adapters.SpecOf(fa.Attenuated())}, payload)
