"""C12 — attenuated-signal flags compare the trailing window's spread with thresholds."""
import adapters
import fn_atten as fa

PID = "C12"
MODEL_TARGETS = ["Generated", "Attenuated"]
PROPS_TARGETS = ["Props_C12"]
SUPPORT_TARGETS = ["FloatExact"]
TRUSTED_BASE = ["modelled, not verified: pandas Series.rolling('<P>s') window membership (t-P, t], min_periods counting "
                "non-NaN observations, .std() (sample, NaN below two observations), .apply(np.ptp, raw=True) (NaN as soon as "
                "the window holds a NaN), np.std / np.ptp on masked arrays, the median-step conversion of min_period",
                "standard deviation is never computed: std < thr is decided as 0 < thr /\\ variance < thr^2 (C12_std_via_variance)"]
ASSUMPTIONS = ["increasing time axes (whole seconds, and regular / irregular axes in units of 0.25, 0.5, 1.5 s); thresholds keep |variance - thr^2| >= 1e-6 (1 + variance) except for exactly "
               "constant windows (the property excludes spreads within rounding distance of a threshold)"]


SIGNATURES = {}


def run(ctx):
    rng, tier = ctx["rng"], ctx["tier"]
    ad = fa.Attenuated()
    allc = fa.gen_atten(tier, rng)
    if tier == "quick":
        # the generator is large: keep every 3rd case in the quick tier (deterministic)
        allc = allc[::3]
    dom = [c for c in allc if ad.in_domain(c)]
    nan_cases = [c for c in dom if fa.range_nan_case(c)]      # rolling range with a missing value in the window (F19, repaired)
    r1 = adapters.run_adapter(ad, dom, rng)
    r2 = adapters.run_adapter(adapters.SpecOf(ad), nan_cases, rng, repeat_frac=0)
    for f in r2["failures"]:
        f["kind"] = "predicate"
        f["clause"] = "flag differs from the decision on the spread of the OBSERVED values of the trailing window"
    # fractional test periods, by time scaling: the series (xs, ts, P + 1/2 s, min_period mp) has the same
    # windows and the same required counts as (xs, 2 ts, 2 P + 1 s, 2 mp); the latter has whole-second
    # parameters, is compared with the model (r3), and the implementation must give both the same flags
    import copy
    pool = [c for c in dom if c["tp"] not in ("absent", None) and isinstance(c["tp"], int) and c["tp"] >= 1
            and len(c["xs"]) >= 2]
    rel_fail, scaled = [], []
    for c in (pool if len(pool) <= 300 else rng.sample(pool, 300)):
        b = copy.deepcopy(c)
        b["ts"] = [2 * t for t in c["ts"]]
        b["tp"] = 2 * c["tp"] + 1
        if c["min_period"] is not None:
            b["min_period"] = 2 * c["min_period"]
        d = copy.deepcopy(c)
        d["tp"] = c["tp"] + 0.5
        scaled.append(b)
        fb, _ = ad.impl(b)
        fd, _ = ad.impl(d)
        if fb != fd:
            rel_fail.append({"kind": "predicate", "function": "attenuated_signal_test",
                             "case": {"fractional_period": d, "scaled_whole_seconds": b}, "impl": fd, "impl_scaled": fb,
                             "clause": "flags with a fractional test_period differ from those of the same series with all "
                                       "times and periods doubled (same windows, same required counts)"})
    r3 = adapters.run_adapter(ad, [b for b in scaled if ad.in_domain(b)], rng, repeat_frac=0)
    r3["failures"] += rel_fail
    r3["evaluations"] += 2 * len(scaled)
    # fractional / sub-second time axes given as plain epoch seconds (float list / float array) instead of datetime64:
    # the windows are built on the times mapdates() returns, which must keep the fraction
    import core
    import crosscut as cc
    sub = [c for c in dom if c.get("unit_ns") and c["tp"] not in ("absent", None)]
    for c in (sub if len(sub) <= 150 else rng.sample(sub, 150)):
        base, _ = ad.impl(c)
        for tc in ("epoch_s_list", "epoch_s_array"):
            tr, applied = cc.carrier_transform(None, tc, None)
            core.KW_TRANSFORM = tr
            try:
                got, _ = ad.impl(c)
            finally:
                core.KW_TRANSFORM = None
            if applied["n"]:
                r3["evaluations"] += 1
                if got != base:
                    r3["failures"].append({"kind": "predicate", "function": "attenuated_signal_test", "case": c, "impl": base,
                                           "impl_carrier": got, "carrier": {"time": tc},
                                           "clause": f"flags differ when the (fractional) times are given as {tc}"})
    # raw counts in narrow integer arrays: the spread of the values must not be computed in the carrier's own type
    wide_fail, wide_n = [], 0
    for c in [c for c in dom if c.get("wide")]:
        base, _ = ad.impl(c)
        for dc in ("int16", "int8", "int64"):
            tr, applied = cc.carrier_transform(dc, None, None)
            core.KW_TRANSFORM = tr
            try:
                got, _ = ad.impl(c)
            finally:
                core.KW_TRANSFORM = None
            if applied["n"]:
                wide_n += 1
                if got != base:
                    wide_fail.append({"kind": "predicate", "function": "attenuated_signal_test", "case": c, "impl": base,
                                      "impl_carrier": got, "carrier": {"data": dc},
                                      "clause": f"flags differ when the whole-number series is given as an {dc} array"})
    r3["failures"] += wide_fail
    r3["evaluations"] += wide_n
    return adapters.merge(
        [r1, r2, r3, cc.carrier_block(ad, dom, tier, rng), cc.reuse_block(ad, dom, tier, rng)],
        rule="series n<=5 over {missing,0,1,3} on regular (1 s, 60 s) and irregular axes x check types x test_period in "
             "{None, 1,2,3 steps} x min_obs x min_period x thresholds on both sides (fail>suspect included), random longer "
             "series, bad check_type; implementation vs model on the domain, and vs the specification on the "
             "rolling-range-with-a-missing-value class (the former deviation F19); fractional test periods through the time-scaling relation "
             "(implementation on (ts, P+1/2) == implementation on (2 ts, 2P+1) == model). non-trivial = >=2 distinct flags or raises")


def replay(payload):
    return adapters.simple_replay({"attenuated_signal_test": fa.Attenuated(), "attenuated_signal_test_spec": adapters.SpecOf(fa.Attenuated())}, payload)
