"""C15 — flags do not depend on how the same series and times are represented."""
import adapters
import crosscut as cc

PID = "C15"
MODEL_TARGETS = cc.ALL_MODELS + ["Carrier"]
PROPS_TARGETS = ["Props_C15"]
SUPPORT_TARGETS = ["FloatExact"]
TRUSTED_BASE = ["partial: the conversion functions (np.array(..).astype(float64), masked_invalid, pandas / dask to numpy, "
                "mapdates with pd.to_datetime) are library code; Carrier.normalise / mapdates_model are their model, validated "
                "by running every test on every carrier, not proved"]
ASSUMPTIONS = ["carriers generated: data = list/tuple with None or NaN, float32, int64 (when integral and complete), masked "
               "array (NaN or finite data under the mask), pandas Series, dask array; time = datetime64[s|ms|us|ns], python "
               "datetimes, Timestamps, DatetimeIndex / Series naive or UTC, epoch seconds (list / float array); spans as "
               "list or tuple"]


def sig_masked_hidden(f):
    return (f.get("carrier") or {}).get("data") == "masked_hidden"


SIGNATURES = {"masked_array_with_finite_hidden_data_loses_mask": sig_masked_hidden}


def run(ctx):
    rng, tier = ctx["rng"], ctx["tier"]
    reg = cc.registry()
    tied = cc.tie(reg, tier, rng, 80 if tier == "quick" else 800, ctx)
    results = []
    n_car = 0
    for name, ad, cs, r in tied:
        fine = []
        for c in cc.sample(cs, 30 if tier == "quick" else 300, rng):
            n, fails = cc.c15_failures(name, ad, c, rng, full=(tier != "quick"))
            n_car += n
            r["failures"] += fails
            r["evaluations"] += n
            # the same case with limits 2^-30 inside the grid values: the data carriers must still agree
            # (a comparison done in the carrier's own narrower precision cannot see such a limit)
            f = cc.fine_variant(name, c)
            if f is not None and ad.in_domain(f):
                fine.append(f)
                n, fails = cc.c15_failures(name, ad, f, rng, full=True, data_only=True)
                n_car += n
                r["failures"] += fails
                r["evaluations"] += n
        if name == "climatology_test":
            # members bounded by calendar DATES (no period) compare the times themselves with the bounds: every time
            # carrier, the timezone-aware ones included, on cases that have such a member
            dated = [c for c in cs if any(m["period"] is None for m in c["cfg"]) and len(c["xs"]) >= 1]
            for c in cc.sample(dated, 25 if tier == "quick" else 250, rng):
                n, fails = cc.c15_failures(name, ad, c, rng, full=True, time_only=True)
                n_car += n
                r["failures"] += fails
                r["evaluations"] += n
        results.append(r)
        if fine:
            results.append(adapters.run_adapter(ad, fine, rng, repeat_frac=0))      # and the model agrees on them
    # sub-second, irregular time axes (rate of change): every time carrier must give the same flags
    import fn_rate
    roc = fn_rate.Roc()
    sub = cc.roc_subsecond_cases(rng, 60 if tier == "quick" else 600)
    rsub = adapters.run_adapter(roc, sub, rng, repeat_frac=0)
    for c in sub:
        n, fails = cc.c15_failures("rate_of_change_test", roc, c, rng, full=True)
        n_car += n
        rsub["failures"] += fails
        rsub["evaluations"] += n
    results.append(rsub)
    # irregular time axes with an EVEN number of steps (the median of the steps is a half-integer number of seconds):
    # every time carrier, on the tests that derive a count from the median step
    import fn_atten
    import fn_flat
    at, fl = fn_atten.Attenuated(), fn_flat.FlatLine()
    pool = [c for c in fn_atten.gen_atten(tier, rng) if at.in_domain(c) and c["min_period"] and c["tp"] not in ("absent", None, 0)
            and len(c["ts"]) >= 3 and len(c["ts"]) % 2 == 1 and len({b - a for a, b in zip(c["ts"], c["ts"][1:])}) > 1]
    extra = {"evaluations": 0, "distinct_nontrivial": 0, "failures": [], "errors": [], "samples": [], "distribution": {}}
    for c in cc.sample(pool, 25 if tier == "quick" else 250, rng):
        n, fails = cc.c15_failures("attenuated_signal_test", at, c, rng, full=True, time_only=True)
        extra["evaluations"] += n
        extra["failures"] += fails
    for _ in range(25 if tier == "quick" else 250):
        n = rng.choice([3, 5, 7])
        ts, t = [], 1577880000
        for _ in range(n):
            ts.append(t * 10 ** 9)
            t += rng.choice([1, 2, 3, 5])
        xs = [rng.choice(["1", "1", "1", "2", "5/2", None]) for _ in range(n)]
        c = fn_flat.mk([None if x is None else cc.F(x) for x in xs], ts, cc.F(rng.choice([2, 3, 4])), cc.F(rng.choice([4, 6])), cc.F(1, 10) if False else cc.F(1, 8))
        k, fails = cc.c15_failures("flat_line_test", fl, c, rng, full=True, time_only=True)
        extra["evaluations"] += k
        extra["failures"] += fails
    extra["distinct_nontrivial"] = extra["evaluations"]
    results.append(extra)
    # a representation may be a MUTABLE object the caller refills in place between calls (a rolling buffer):
    # ndarray / list carriers of data and times, reused across consecutive calls, must give the flags of fresh ones
    timed = [t for t in reg if t[0] in ("rate_of_change_test", "flat_line_test", "attenuated_signal_test", "speed_test",
                                        "climatology_test", "spike_test", "gross_range_test")]
    n_buf = 0
    for dc, tc in ((None, None), ("list_nan", "epoch_s_list"), (None, "dt64_s")):
        pre = None if dc is None and tc is None else cc.carrier_transform(dc, tc, None)[0]
        nb, fb, _ = cc.shared_buffer_history(timed, tier, rng, 15 if tier == "quick" else 150, pre=pre)
        n_buf += nb
        for f in fb:
            f["carrier"] = {"data": dc, "time": tc, "reused_in_place": True}
        results[0]["failures"] += fb
        results[0]["evaluations"] += nb
    out = adapters.merge(
        results,
        rule="per test: sampled in-domain cases re-run with the data / auxiliary inputs, the time axis and the parameter "
             "spans converted to each carrier type (8 random carrier combinations per case in the quick tier, all 23 in the "
             "thorough tier); flags must equal those of the float64-ndarray / datetime64[ns] run, which is itself compared "
             "with the Coq model. non-trivial = >=2 distinct flags or raises")
    out["distribution"]["carrier_runs"] = n_car
    out["distribution"]["reused_buffer_calls"] = n_buf
    return out
