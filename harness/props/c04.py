"""C04 — aggregation reports, per point, the worst flag any test produced."""
import adapters
import core
import fns

PID = "C04"
MODEL_TARGETS = ["Generated", "Compare"]
PROPS_TARGETS = ["Props_C04"]
TRUSTED_BASE = ["modelled, not verified: numpy `masked == scalar` is False at masked entries; np.where on it; "
                "uint8 cast of the result"]
ASSUMPTIONS = ["input vectors are 1-D uint8 arrays or masked arrays (as produced by the tests and by collect_results)"]


_PRIO = {"9": 0, "2": 1, "1": 2, "3": 3, "4": 4}


def relations(rng, n_cases):
    """order / multiplicity / grouping independence evaluated directly on the implementation"""
    from ioos_qc import qartod

    fails = []
    count = 0
    for _ in range(n_cases):
        k, n = rng.randint(2, 5), rng.randint(1, 8)
        vs = [[rng.choice(fns.CELLS) for _ in range(n)] for _ in range(k)]
        base = core.canon_flags(qartod.qartod_compare([fns._vec(v) for v in vs]))
        perm = vs[:]
        rng.shuffle(perm)
        dup = vs + [rng.choice(vs)]
        cut = rng.randint(1, k - 1)
        a = qartod.qartod_compare([fns._vec(v) for v in vs[:cut]])
        b = qartod.qartod_compare([fns._vec(v) for v in vs[cut:]])
        for label, got in (("permutation", core.canon_flags(qartod.qartod_compare([fns._vec(v) for v in perm]))),
                           ("duplication", core.canon_flags(qartod.qartod_compare([fns._vec(v) for v in dup]))),
                           ("grouping", core.canon_flags(qartod.qartod_compare([a, b])))):
            count += 1
            if got != base:
                fails.append({"kind": "predicate", "function": "qartod_compare", "case": {"vs": vs},
                              "impl": base, "impl_transformed": got, "clause": f"roll-up not invariant under {label}"})
        # C04_idem / C04_single: rolling up a roll-up changes nothing; C04_monotone: one more vector never improves
        whole = qartod.qartod_compare([fns._vec(v) for v in vs])
        again = core.canon_flags(qartod.qartod_compare([whole]))
        count += 1
        if again != base:
            fails.append({"kind": "predicate", "function": "qartod_compare", "case": {"vs": vs},
                          "impl": base, "impl_transformed": again, "clause": "roll-up of a roll-up differs (idempotence)"})
        extra = [rng.choice(fns.CELLS) for _ in range(n)]
        more = core.canon_flags(qartod.qartod_compare([fns._vec(v) for v in vs + [extra]]))
        count += 1
        bs, ms = base[2:].split(","), more[2:].split(",")
        if not (base.startswith("F:") and more.startswith("F:") and len(bs) == len(ms)) or \
                any(_PRIO.get(x, 9) > _PRIO.get(y, -1) for x, y in zip(bs, ms)):
            fails.append({"kind": "predicate", "function": "qartod_compare", "case": {"vs": vs + [extra]},
                          "impl": base, "impl_transformed": more,
                          "clause": "adding a vector improved the roll-up at some position (monotonicity)"})
    return count, fails


def aggregate_failures(rng, n_cases):
    """qartod.aggregate(results) and PandasStore.compute_aggregate: the roll-up of ALL collected results, whatever
    module (qartod / axds / argo) and stream they come from == qartod_compare of their flag vectors"""
    from ioos_qc import qartod
    from ioos_qc.results import CollectedResult
    from ioos_qc.stores import PandasStore

    fails, count = [], 0
    pkgs = [("qartod", "gross_range_test"), ("qartod", "spike_test"), ("axds", "valid_range_test"),
            ("argo", "speed_test"), ("argo", "pressure_increasing_test")]
    for _ in range(n_cases):
        k, n = rng.randint(1, 4), rng.randint(1, 7)
        chosen = [rng.choice(pkgs) for _ in range(k)]
        if rng.random() < 0.3:
            chosen = [c for c in chosen if c[0] != "qartod"] or [("axds", "valid_range_test")]      # no qartod test at all
        vs = [[rng.choice(fns.CELLS) for _ in range(n)] for _ in chosen]
        crs = [CollectedResult(stream_id=f"s{i % 2}", package=p, test=t, function=None, results=fns._vec(v))
               for i, ((p, t), v) in enumerate(zip(chosen, vs))]
        want = core.canon_flags(qartod.qartod_compare([fns._vec(v) for v in vs]))
        case = {"vs": vs, "packages": [list(c) for c in chosen]}
        for label, f in (("aggregate", lambda: qartod.aggregate(crs)),
                         ("PandasStore.compute_aggregate", lambda: _store_rollup(PandasStore, crs))):
            count += 1
            try:
                got = core.canon_flags(f())
            except Exception as e:  # noqa: BLE001
                got = core.canon_exc(e)
            if got != want:
                fails.append({"kind": "predicate", "function": label, "case": case, "impl": got, "expected": want,
                              "clause": f"{label} is not the roll-up (qartod_compare) of all the collected results"})
    return count, fails


def _store_rollup(PandasStore, crs):
    st = PandasStore.__new__(PandasStore)
    st.collected_results = list(crs)
    st.compute_aggregate()
    return st.collected_results[-1].results


def run(ctx):
    rng, tier = ctx["rng"], ctx["tier"]
    r = adapters.run_adapter(fns.Compare(), fns.gen_compare(tier, rng), rng, with_spec=not ctx['props_ok'])
    cnt, fails = relations(rng, 200 if tier == "quick" else 3000)
    r["evaluations"] += cnt
    r["failures"] += fails
    cnt, fails = aggregate_failures(rng, 150 if tier == "quick" else 2000)
    r["evaluations"] += cnt
    r["failures"] += fails
    return adapters.merge(
        [r],
        rule="all columns of k<=3 (thorough 4) vectors over {1,2,3,4,9,0,7,masked(data 4),masked(data 1)}; all pairs of "
             "length-2 vectors over a 6-symbol alphabet; random k<=6, n<=12; permutation/duplication/grouping/idempotence/monotonicity relations "
             "on the implementation; aggregate() and PandasStore.compute_aggregate on CollectedResults of mixed modules "
             "(qartod / axds / argo) and streams == qartod_compare of their vectors. non-trivial = result has >=2 distinct flags or raises",
    )


def replay(payload):
    ad = fns.Compare()
    canon, mutated = ad.impl(payload["case"])
    mism, errs = core.eval_cases("replay", ad.imports, ad.rtype, ad.eqb, [(ad.model(payload["case"]), "(Raises OtherError)")])
    return {"impl": canon, "model": ad.printed_to_canon(mism.get(0, "?")), "mutated": mutated, "errors": errs}
