"""C16 — stricter thresholds never produce a better flag."""
import adapters
import crosscut as cc

PID = "C16"
MODEL_TARGETS = cc.ALL_MODELS
PROPS_TARGETS = ["Props_C16"]
TRUSTED_BASE = ["numpy semantics of each test are modelled (per-test properties)"]
ASSUMPTIONS = ["both parameter sets valid (non-negative thresholds / durations, suspect span inside fail span)",
               "on the implementation the relation is evaluated for gross/valid range, spike, rate of change, speed, location "
               "(box), density inversion, flat line and climatology (per member: spans shrunk, or a fail span added); for attenuated signal and range_max only the Coq theorem applies "
               "(moving those thresholds by small steps would land within rounding distance of a spread / hop distance)"]
TESTS = ["gross_range_test", "valid_range_test", "spike_test", "rate_of_change_test", "speed_test", "location_test",
         "density_inversion_test", "flat_line_test", "attenuated_signal_test", "climatology_test"]


def run(ctx):
    rng, tier = ctx["rng"], ctx["tier"]
    reg = [r for r in cc.registry() if r[0] in TESTS]
    tied = cc.tie(reg, tier, rng, 150 if tier == "quick" else 1500, ctx)
    results = []
    pairs = 0
    for name, ad, cs, r in tied:
        pool = cc.domain_cases(name, ad, next(g for n, a, g in reg if n == name), tier, rng)
        for c in cc.sample(pool, 250 if tier == "quick" else 2500, rng):
            n, fails = cc.c16_failures(name, ad, c, rng)
            pairs += n
            r["failures"] += fails
            r["evaluations"] += 2 * n
        results.append(r)
    out = adapters.merge(
        results,
        rule="per thresholded test: sampled in-domain cases, each paired with a stricter parameter set on the same data "
             "(spans / box shrunk by grid steps, thresholds lowered or added, durations shortened, tolerance raised, density "
             "thresholds raised or added); on the implementation: severity GOOD<SUSPECT<FAIL never decreases and the "
             "UNKNOWN/MISSING positions are unchanged; plus implementation vs Coq model on a sample. "
             "non-trivial = >=2 distinct flags or raises")
    out["distribution"]["ordered_pairs_evaluated"] = pairs
    return out
