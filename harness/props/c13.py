"""C13 — profile tests flag both points of an inverted pair, in either cast direction."""
import adapters
import core
import fn_density as fd

PID = "C13"
MODEL_TARGETS = ["Generated", "Density"]
PROPS_TARGETS = ["Props_C13"]
SUPPORT_TARGETS = ["FloatExact"]
TRUSTED_BASE = ["modelled, not verified: numpy masked diff / sign / multiplication, the `(delta < thr) == True` selection, "
                "np.mean / np.sign / NaN comparisons in pressure_increasing_test"]
ASSUMPTIONS = ["depths and densities on the dyadic grid; pressure profiles of present values (NaN behaviour is modelled "
               "and proved but lies outside the property); a zero mean step counts as ascending (stated in C13_pressure_char)"]


def reverse_relation(rng, count):
    """mirrored flags for reversed complete profiles, evaluated directly on the implementation"""
    from fractions import Fraction as F
    from ioos_qc import qartod
    fails, n = [], 0
    for _ in range(count):
        k = rng.randint(2, 7)
        rho = [F(rng.randint(0, 8), 2) for _ in range(k)]
        z = [F(rng.randint(1, 6)) for _ in range(k)]
        st, ft = rng.choice([None, F(0), F(-1, 2), F(1)]), rng.choice([None, F(-1), F(0), F(-2)])
        kw = {}
        if st is not None:
            kw["suspect_threshold"] = float(st)
        if ft is not None:
            kw["fail_threshold"] = float(ft)
        a = core.canon_flags(qartod.density_inversion_test(core.to_float_array(rho), core.to_float_array(z), **kw))
        b = core.canon_flags(qartod.density_inversion_test(core.to_float_array(rho[::-1]), core.to_float_array(z[::-1]), **kw))
        n += 1
        if a[2:].split(",") != b[2:].split(",")[::-1]:
            fails.append({"kind": "predicate", "function": "density_inversion_test",
                          "case": {"rho": [core.fr(x) for x in rho], "z": [core.fr(x) for x in z], "st": core.fr(st), "ft": core.fr(ft)},
                          "impl": a, "impl_reversed": b, "clause": "reversed profile does not receive mirrored flags"})
    return n, fails


def run(ctx):
    dens, pres = fd.Density(), fd.Pressure()

    def gen_p(tier, rng):
        return [c for c in fd.gen_pressure(tier, rng) if pres.in_domain(c)]
    import crosscut as cc
    out = adapters.simple_run(
        ctx, [(dens, fd.gen_density), (pres, gen_p)],
        blocks=(lambda ad, cs, tier, rng: cc.carrier_block(ad, cs, tier, rng) if ad.name == "density_inversion_test" else None,
                lambda ad, cs, tier, rng: cc.reuse_block(ad, cs, tier, rng) if ad.name == "density_inversion_test" else None),
        rule="density: all profiles n<=4 (thorough 5) over depths {1,2,3,missing} (down, up, down-up, stationary, repeated) x "
             "densities {0,1,2,missing} x 12 threshold pairs (differences exactly on thresholds, one or both absent), random "
             "longer profiles, shape mismatch; pressure: all series n<=5 over {0,1,2,3} plus random; reversal relation on "
             "the implementation. non-trivial = >=2 distinct flags or raises")
    n, fails = reverse_relation(ctx["rng"], 300 if ctx["tier"] == "quick" else 3000)
    out["evaluations"] += 2 * n
    out["failures"] += fails
    return out


def replay(payload):
    return adapters.simple_replay({"density_inversion_test": fd.Density(), "pressure_increasing_test": fd.Pressure()}, payload)
