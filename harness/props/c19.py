"""C19 — the pandas store writes one aligned, uniquely named column per test result."""
import adapters
import fn_store as fst

PID = "C19"
MODEL_TARGETS = ["Generated", "Compare", "Store"]
PROPS_TARGETS = ["Props_C19"]
TRUSTED_BASE = ["modelled, not verified: Python's `re` on the two character classes of cf_safe_name (the classes are parsed "
                "from the regex literals re-read from /repo by the translator), pandas DataFrame column assembly "
                "(insertion order, masked -> NaN/NaT, length check), function identity of CollectedResult.function; "
                "collect_results / the streams feeding the store are covered by C05/C06"]
ASSUMPTIONS = ["stores are built both from CollectedResult objects directly and from real PandasStream + Config runs",
               "specification comparison is made on runs whose arrays are well-formed and whose stream ids / result columns "
               "do not coincide with an AXIS or DATA column name (z, time, ...); column-name COLLISIONS between results are "
               "inside the property's domain and reported as known finding F14b"]


def sig_collision(f):
    try:
        return f.get("function", "").startswith("PandasStore_save") and fst.collision_case(f["case"])
    except Exception:  # noqa: BLE001
        return False


SIGNATURES = {"store_column_name_collision_drops_result": sig_collision}


class StoreSpec(fst.StoreSave):
    name = "PandasStore_save_spec"

    def model(self, case):
        return fst.StoreSave.model(self, case).replace("(observe (store_model ", "(observe (store_intended ")


def run(ctx):
    rng, tier = ctx["rng"], ctx["tier"]
    cases = fst.gen_store(tier, rng)
    r1 = adapters.run_adapter(fst.CfSafeName(), fst.gen_cf(tier, rng), rng)
    r2 = adapters.run_adapter(fst.StoreSave(), cases, rng)
    ad = fst.StoreSave()
    dom = []
    for c in cases:
        info = fst.case_info(c)
        if info["wf"] and not info["axis_clash"] and not info["data_clash"]:
            dom.append(c)
    r3 = adapters.run_adapter(StoreSpec(), dom, rng, repeat_frac=0)
    for f in r3["failures"]:
        f["kind"] = "predicate"
        f["clause"] = "frame differs from the one the property describes (one column per kept result, axes, data, roll-up)"
    return adapters.merge(
        [r1, r2, r3],
        rule="cf_safe_name: all strings of length<=3 over a 9-symbol alphabet (., -, space, _, digit, letters, non-ASCII, /) "
             "plus random longer; save: stores of 1-3 streams with ids containing illegal characters / colliding after "
             "cleaning / leading digit or underscore / non-ASCII x 1-2 tests x windows (rows not evaluated) x write_data x "
             "write_axes x include/exclude lists by stream id, test name and function object x compute_aggregate; built "
             "from CollectedResult objects and from real PandasStream runs; implementation vs faithful model on all, vs the "
             "property's frame on the well-formed ones. non-trivial = default adapter rule")


def replay(payload):
    return adapters.simple_replay({"cf_safe_name": fst.CfSafeName(), "PandasStore_save": fst.StoreSave(),
                                   "PandasStore_save_spec": StoreSpec()}, payload)
