"""C03 — range tests flag by inclusive interval membership, fail before suspect."""
import adapters
import fns

PID = "C03"
MODEL_TARGETS = ["Range"]
PROPS_TARGETS = ["Props_C03"]
TRUSTED_BASE = ["modelled, not verified: numpy masked-array comparison semantics (a comparison with a missing "
                "operand is False), np.array(...).astype(float64)/masked_invalid normalisation, datetime64 ordering"]
ASSUMPTIONS = ["values and bounds on the dyadic grid k/64 (floats == rationals); datetimes as whole seconds",
               "inputs given as numpy float64 / datetime64[ns] arrays (other carriers: C15)"]


def run(ctx):
    rng, tier = ctx["rng"], ctx["tier"]
    r1 = adapters.run_adapter(fns.GrossRange(), fns.gen_gross(tier, rng), rng)
    r2 = adapters.run_adapter(fns.ValidRange(), fns.gen_valid(tier, rng), rng)
    return adapters.merge(
        [r1, r2],
        rule="per (fail span, suspect span | valid span x inclusivity): every alphabet value {bound, bound±1/64, far, "
             "missing} alone, all series of length<=3(4) over a 4-symbol sub-alphabet, random series up to length 30; "
             "spans nested/touching/equal/degenerate/reversed/not-contained/wrong arity; float and datetime64 inputs. "
             "non-trivial = result has >=2 distinct flags or raises",
    )


def replay(payload):
    ad = {"gross_range_test": fns.GrossRange(), "valid_range_test": fns.ValidRange()}[payload["function"]]
    canon, mutated = ad.impl(payload["case"])
    import core
    mism, errs = core.eval_cases("replay", ad.imports, ad.rtype, ad.eqb, [(ad.model(payload["case"]), "(Raises OtherError)")])
    return {"impl": canon, "model": ad.printed_to_canon(mism.get(0, "?")), "mutated": mutated, "errors": errs}
