"""C03 — range tests flag by inclusive interval membership, fail before suspect."""
import adapters
import fns
import core
from core import fr as core_fr

PID = "C03"
MODEL_TARGETS = ["Range"]
PROPS_TARGETS = ["Props_C03"]
TRUSTED_BASE = ["modelled, not verified: numpy masked-array comparison semantics (a comparison with a missing "
                "operand is False), np.array(...).astype(float64)/masked_invalid normalisation, datetime64 ordering"]
ASSUMPTIONS = ["values and bounds on the dyadic grid k/64 (floats == rationals); datetimes as whole seconds",
               "inputs given as numpy float64 / datetime64[ns] arrays (other carriers: C15)"]


def run(ctx):
    rng, tier = ctx["rng"], ctx["tier"]
    r1 = adapters.run_adapter(fns.GrossRange(), fns.gen_gross(tier, rng), rng)
    r2 = adapters.run_adapter(fns.ValidRange(), fns.gen_valid(tier, rng), rng)
    # whole-number data given integer-typed (int list / int32 / int64) or in single precision, against limits that are
    # NOT whole numbers (k + 1/2) or lie 2^-30 inside a whole number: the limits must keep their own precision
    import crosscut as cc
    from fractions import Fraction as F
    extra_fail, extra_n = [], 0
    data = [F(v) for v in (-50, 0, 1, 2, 5, 8, 9, 10, 50)]
    for lo, hi in ((F(1, 2), F(19, 2)), (F(3, 2), None), (None, F(15, 2)), (F(2) + F(1, 2 ** 30), F(8) - F(1, 2 ** 30)),
                   (F(0) - F(1, 2 ** 30), F(10) + F(1, 2 ** 30))):
        for si, ei in ((None, None), (True, False), (False, True)):
            c = {"kind": "float", "xs": fns.frs(data), "lo": core_fr(lo), "hi": core_fr(hi), "si": si, "ei": ei}
            n, f = cc.integer_series_failures("valid_range_test", fns.ValidRange(), c, also=("float32",))
            extra_n += n
            extra_fail += f
        g = {"xs": fns.frs(data), "fail": [core_fr(lo if lo is not None else F(-100)), core_fr(hi if hi is not None else F(100))],
             "suspect": None}
        n, f = cc.integer_series_failures("gross_range_test", fns.GrossRange(), g, also=("float32",))
        extra_n += n
        extra_fail += f
    # the same numbers given as a plain list (missing as None), with an unbounded side written as a missing or as an
    # INFINITE bound: valid_range_test then guesses the type of its input
    base_cases = [c for c in fns.gen_valid("quick", rng) if c["kind"] == "float" and (c["lo"] is None or c["hi"] is None)]
    ad = fns.ValidRange()
    for c in cc.sample(base_cases, 80 if tier == "quick" else 800, rng):
        base, _ = ad.impl(c)
        tr, applied = cc.carrier_transform("list_none", None, None)
        core.KW_TRANSFORM = tr
        try:
            got, _ = ad.impl(c)
        finally:
            core.KW_TRANSFORM = None
        if applied["n"]:
            extra_n += 1
            if got != base:
                extra_fail.append({"kind": "predicate", "function": "valid_range_test", "case": c, "impl": base,
                                   "impl_carrier": got, "carrier": {"data": "list_none"},
                                   "clause": "a plain list (missing as None) does not get the flags of the same numbers as an ndarray"})
    r2["failures"] += extra_fail
    r2["evaluations"] += extra_n
    # DECIMAL limits (26.1, 65.2, -21.3: not binary fractions) with observations sitting exactly ON them: the limits are
    # inclusive, and a value that is the very float of a limit is inside whatever arithmetic surrounds the comparison
    # (implementation-only predicate, outside the dyadic grid of the correspondence)
    import numpy as np
    from ioos_qc import axds, qartod
    dec = [26.1, 65.2, -21.3, 0.1, 0.7, 22.2, 57.7, 1013.3, 35.6, 7.9, -0.3, 100.1]
    dec_fail, dec_n = [], 0
    for _ in range(60 if tier == "quick" else 600):
        a, b = sorted(rng.sample(dec, 2))
        vals = [a, b, (a + b) / 2, float("nan")]
        mode = rng.choice(["fail", "suspect", "valid"])
        if mode == "fail":
            kw, fn, want = {"inp": np.array(vals), "fail_span": rng.choice([(a, b), [b, a]])}, qartod.gross_range_test, "F:1,1,1,9"
        elif mode == "suspect":
            kw, fn, want = {"inp": np.array(vals), "fail_span": (a - 10, b + 10), "suspect_span": rng.choice([(a, b), [b, a]])}, \
                qartod.gross_range_test, "F:1,1,1,9"
        else:
            kw, fn, want = {"inp": np.array(vals), "valid_span": (a, b), "start_inclusive": True, "end_inclusive": True}, \
                axds.valid_range_test, "F:1,1,1,9"
        got, _ = core.call_impl(fn, kw)
        dec_n += 1
        if got != want:
            dec_fail.append({"kind": "predicate", "function": fn.__name__, "case": {k: (v.tolist() if hasattr(v, "tolist") else list(v) if isinstance(v, (tuple, list)) else v) for k, v in kw.items()},
                             "impl": got, "spec": want,
                             "clause": "observations exactly on decimal limits (inclusive) are inside the span"})
    r1["failures"] += dec_fail
    r1["evaluations"] += dec_n
    # 2-D inputs in C and Fortran memory order: interval membership is decided element by element
    nd = [cc.layout_block(ad_, [c for c in gen_(tier, rng) if len(c["xs"]) in (4, 6, 8)], tier, rng)
          for ad_, gen_ in ((fns.GrossRange(), fns.gen_gross), (fns.ValidRange(), fns.gen_valid))]
    return adapters.merge(
        [r1, r2] + [x for x in nd if x is not None]
        + [cc.carrier_block(ad_, gen_(tier, rng), tier, rng) for ad_, gen_ in ((fns.GrossRange(), fns.gen_gross), (fns.ValidRange(), fns.gen_valid))],
        rule="per (fail span, suspect span | valid span x inclusivity): every alphabet value {bound, bound±1/64, far, "
             "missing} alone, all series of length<=3(4) over a 4-symbol sub-alphabet, random series up to length 30; "
             "spans nested/touching/equal/degenerate/reversed/not-contained/wrong arity; float and datetime64 inputs; whole-number data given as int list / int32 / int64 / float32 against limits "
             "k+1/2 and k±2^-30. "
             "non-trivial = result has >=2 distinct flags or raises",
    )


def replay(payload):
    ad = {"gross_range_test": fns.GrossRange(), "valid_range_test": fns.ValidRange()}[payload["function"]]
    canon, mutated = ad.impl(payload["case"])
    import core
    mism, errs = core.eval_cases("replay", ad.imports, ad.rtype, ad.eqb, [(ad.model(payload["case"]), "(Raises OtherError)")])
    return {"impl": canon, "model": ad.printed_to_canon(mism.get(0, "?")), "mutated": mutated, "errors": errs}
