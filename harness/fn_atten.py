"""Adapter and case generator for qartod.attenuated_signal_test (property C12).

Values on the dyadic grid, times whole seconds (datetime64[ns]).  The standard deviation computed by
numpy / pandas is a rounded float; the model compares the exact variance with thr^2.  The generator
therefore keeps every variance v of a case away from thr^2:  |v - thr^2| >= 1e-6 * (1 + v), except
v = 0 exactly (constant windows: numpy and pandas return exactly 0.0 on the grid).  Ranges are exact,
thresholds equal to a range are allowed."""
import itertools
import math
from fractions import Fraction as F

import core
from fns import big_shift_copies
from adapters import Adapter
from core import clist, obs_list, opt, q, z
from fns import G, frs, np_epoch_ns, unfr

NS = 10 ** 9


def unit_of(case):
    """nanoseconds per unit of case["ts"] (default: whole seconds; sub-second sampling uses a smaller unit)"""
    return case.get("unit_ns", NS)


def secs_of(case):
    u = unit_of(case)
    return list(case["ts"]) if u == NS else [F(t * u, NS) for t in case["ts"]]


def range_nan_case(case):
    """The class of the former deviation F19 (repaired; now an ordinary part of the domain):
    check_type='range', test_period given, and some present point whose trailing window
    (t - P, t] contains a missing value.  There Rolling.apply(np.ptp, raw=True) yields NaN (UNKNOWN)
    although the window holds observed values.  Exactly the negation of the refinement's
    `range_clean` hypothesis (for a non-empty series in rolling mode)."""
    tp = None if case["tp"] == "absent" else case["tp"]
    xs, ts = case["xs"], secs_of(case)
    if case["check"] != "range" or not tp or len(xs) != len(ts):
        return False
    for i, x in enumerate(xs):
        if x is None:
            continue
        for j, y in enumerate(xs):
            if y is None and ts[i] - tp < ts[j] <= ts[i]:
                return True
    return False


class Attenuated(Adapter):
    name = "attenuated_signal_test"
    imports = ["Base", "Attenuated"]

    def impl(self, case):
        from ioos_qc import qartod

        kw = {"inp": core.to_float_array([unfr(x) for x in case["xs"]]),
              "tinp": np_epoch_ns([t * unit_of(case) for t in case["ts"]]),
              "suspect_threshold": float(unfr(case["st"])),
              "fail_threshold": float(unfr(case["ft"]))}
        if case["check"] is not None:
            kw["check_type"] = case["check"]
        if case["tp"] != "absent":
            kw["test_period"] = case["tp"]
        if case["min_obs"] is not None:
            kw["min_obs"] = case["min_obs"]
        if case["min_period"] is not None:
            kw["min_period"] = case["min_period"]
        return core.call_impl(qartod.attenuated_signal_test, kw)

    def model(self, case):
        chk = core.coq_string(case["check"] if case["check"] is not None else "std")
        tp = None if case["tp"] == "absent" else case["tp"]
        return (f"(atten_model {chk} {q(unfr(case['st']))} {q(unfr(case['ft']))} "
                f"{opt(tp, z)} {opt(case['min_obs'], z)} {opt(case['min_period'], z)} "
                f"{obs_list([unfr(x) for x in case['xs']])} {clist([z(t * unit_of(case)) for t in case['ts']])})")

    def spec(self, case):
        return self.model(case).replace("atten_model", "atten_spec", 1)

    def in_domain(self, case):
        # increasing axis of the right length, non-negative period / min_obs / min_period, and not the
        # known deviation class (range_clean hypothesis of atten_refines)
        ts = case["ts"]
        tp = None if case["tp"] == "absent" else case["tp"]
        return (all(a < b for a, b in zip(ts, ts[1:])) and len(ts) == len(case["xs"])
                and (tp is None or tp >= 0)
                and (case["min_obs"] is None or case["min_obs"] >= 0)
                and (case["min_period"] is None or case["min_period"] >= 0))

    range_nan_case = staticmethod(range_nan_case)


# ------------------------------------------------------------------ exact spreads (threshold choice only)

def _var(vals, ddof):
    n = len(vals)
    if n - ddof <= 0:
        return None
    m = sum(vals, F(0)) / n
    return sum(((v - m) ** 2 for v in vals), F(0)) / (n - ddof)


def spreads(xs, ts, check, tp):
    """set of exact spread statistics (variance / range) over all windows of the case"""
    out = set()
    if not tp:
        vals = [x for x in xs if x is not None]
        if vals:
            out.add(_var(vals, 0) if check == "std" else max(vals) - min(vals))
        return out
    for i in range(len(xs)):
        vals = [xs[j] for j in range(i + 1) if ts[i] - tp < ts[j] and xs[j] is not None]
        if check == "std":
            v = _var(vals, 1)
            if v is not None:
                out.add(v)
        elif vals:
            out.add(max(vals) - min(vals))
    return out


def far_enough(check, thr, sp):
    if check != "std":
        return True
    t2 = F(thr) * F(thr)
    return all(v == 0 or abs(v - t2) >= F(1, 10 ** 6) * (1 + v) for v in sp)


def dyadic(x, bits=10):
    """float -> nearby dyadic rational"""
    return F(round(x * 2 ** bits), 2 ** bits)


def threshold_pairs(check, sp, rng, k):
    """(suspect, fail) pairs on both sides of the spreads, incl. fail > suspect, zero and negative"""
    cands = {F(0), F(-1), F(1, 64), F(100)}
    for v in sp:
        base = F(v) if check != "std" else dyadic(math.sqrt(v))
        if check != "std":
            cands |= {base, base + G, base - G}
        else:
            cands |= {dyadic(float(base) * 1.0625), dyadic(float(base) * 0.9375)}
    cands = sorted(c for c in cands if far_enough(check, c, sp))
    pairs = [(s, f) for s in cands for f in cands]
    if len(pairs) > k:
        pairs = rng.sample(pairs, k)
    return pairs


AXES = {
    "reg1": lambda n: list(range(0, n)),
    "reg60": lambda n: [60 * i for i in range(n)],
    "irr": lambda n: [0, 1, 3, 4, 8, 9, 11, 16, 17, 19, 25, 26, 30][:n],
    "irr2": lambda n: [5, 9, 10, 12, 13, 20, 21, 22, 30, 40, 41, 43, 50][:n],
}

MINS = [(None, None), (1, None), (2, None), (3, None), (0, None),
        (None, 0), (None, 1), (None, 2), (None, 3), (None, 5), (None, 120), (2, 120)]


def mk(xs, ts, check, st, ft, tp, mo, mp):
    return {"xs": frs(xs), "ts": list(ts), "check": check, "st": core.fr(st), "ft": core.fr(ft),
            "tp": tp, "min_obs": mo, "min_period": mp}


def periods(axis, ts):
    step = 60 if axis == "reg60" else 1
    return [None, step, 2 * step, 3 * step]


def gen_atten(tier, rng):
    alpha = [None, F(0), F(1), F(3)]
    cases = []
    full_len = 2 if tier == "quick" else 3
    per_series = 3 if tier == "quick" else 30
    for n in range(0, 6):
        for xs in itertools.product(alpha, repeat=n):
            xs = list(xs)
            for axis in ("reg1", "reg60", "irr"):
                ts = AXES[axis](n)
                combos = [(c, tp, mo, mp) for c in ("std", "range") for tp in periods(axis, ts)
                          for (mo, mp) in MINS]
                if n > full_len:
                    combos = rng.sample(combos, per_series)
                for check, tp, mo, mp in combos:
                    if tp is None and (mo, mp) != (None, None) and rng.random() < 0.8 and n <= full_len:
                        continue  # min_obs / min_period are ignored without test_period
                    sp = spreads(xs, ts, check, tp)
                    for st, ft in threshold_pairs(check, sp, rng, 2 if n > full_len else (2 if tier == "quick" else 6)):
                        cases.append(mk(xs, ts, check, st, ft, tp, mo, mp))
    # random longer series on the grid
    for _ in range(1500 if tier == "quick" else 20000):
        n = rng.randint(6, 12)
        vals = [F(rng.randint(-8, 8), 64) for _ in range(3)] + [None]
        xs = [rng.choice(vals) if rng.random() < 0.7 else F(rng.randint(-64, 64), 64) for _ in range(n)]
        kind = rng.choice(["reg1", "reg60", "irr", "irr2", "rand"])
        if kind == "rand":
            ts, t = [], rng.randint(0, 100)
            for _ in range(n):
                ts.append(t)
                t += rng.choice([1, 1, 1, 2, 3, 5, 60])
        else:
            ts = AXES[kind](n)
        check = rng.choice(["std", "range"])
        tp = rng.choice([None, 0, 1, 2, 3, 4, 6, 10, 60, 120, 180])
        mo, mp = rng.choice(MINS)
        sp = spreads(xs, ts, check, tp)
        for st, ft in threshold_pairs(check, sp, rng, 2):
            cases.append(mk(xs, ts, check, st, ft, tp, mo, mp))
    # default arguments (check_type / test_period absent), test_period = 0
    for xs in ([F(1), F(1), F(1)], [F(0), F(3), None, F(1)], [None, None], []):
        ts = list(range(len(xs)))
        for st, ft in ((F(1, 2), F(1, 4)), (F(5), F(2)), (F(0), F(0))):
            c = mk(xs, ts, None, st, ft, "absent", None, None)
            cases.append(c)
            cases.append(mk(xs, ts, "range", st, ft, 0, 2, None))
            cases.append(mk(xs, ts, "std", st, ft, 0, None, 2))
    # unknown check_type is rejected (whatever else is passed)
    for bad in ("variance", "", "Std", "RANGE", "stdev"):
        for xs in ([], [F(1), F(3), None]):
            ts = list(range(len(xs)))
            cases.append(mk(xs, ts, bad, F(1), F(2), None, None, None))
            cases.append(mk(xs, ts, bad, F(1), F(2), 2, 1, None))
    # rejected parameters in rolling mode: negative min_obs / min_period (sub-second sampling is not
    # expressible with whole-second times); empty input is returned as is whatever the parameters
    for check in ("std", "range"):
        cases.append(mk([F(1), F(3)], [0, 1], check, F(1), F(2), 2, -1, None))
        cases.append(mk([F(1), F(3)], [0, 1], check, F(1), F(2), 2, None, -3))
        cases.append(mk([F(1), F(3)], [0, 1], check, F(1), F(2), None, -1, None))
        cases.append(mk([], [], check, F(1), F(2), None, None, None))
        cases.append(mk([], [], check, F(1), F(2), 3, None, None))
        cases.append(mk([], [], check, F(1), F(2), 3, None, 2))
        cases.append(mk([F(1)], [7], check, F(1), F(2), 3, None, 2))
        cases.append(mk([], [], check, F(1), F(2), 3, -1, None))
        cases.append(mk([], [], check, F(1), F(2), 3, None, -2))
        cases.append(mk([], [], check, F(1), F(2), -3, None, None))
        cases.append(mk([], [0, 1], check, F(1), F(2), 3, None, None))
        cases.append(mk([], [2, 1, 5], check, F(1), F(2), 3, None, 1))
        cases.append(mk([], [0], check, F(1), F(2), None, None, None))
    # outside the property's domain (not increasing / lengths differ): the model still follows the code
    for check in ("std", "range"):
        cases.append(mk([F(1), F(3), F(0)], [0, 2, 1], check, F(1), F(2), 2, None, None))
        cases.append(mk([F(1), F(3), F(0)], [0, 2, 1], check, F(1), F(2), None, None, None))
        cases.append(mk([F(1), F(3), F(0), F(1)], [0, 1, 1, 2], check, F(1), F(2), 1, None, None))
        cases.append(mk([F(1), F(3), F(0), F(1)], [3, 2, 1, 0], check, F(1), F(2), 2, None, None))
        cases.append(mk([F(1), F(3), F(0), F(1)], [3, 2, 2, 0], check, F(1), F(2), 2, 2, None))
        cases.append(mk([F(1), F(3), F(0)], [0, 1], check, F(1), F(2), 2, None, None))
        cases.append(mk([F(1), F(3), F(0)], [0, 1], check, F(1), F(2), None, None, None))
        cases.append(mk([F(1), F(3)], [0, 1], check, F(5), F(2), -2, None, None))
    # sub-second and fractional sampling (0.25, 0.5, 1.5 s per step): min_period is divided by the TRUE step
    # (before the repair of F24 the step was floored to whole seconds: 0 -> ValueError, 1.5 -> 1)
    for _ in range(120 if tier == "quick" else 1200):
        unit = rng.choice([NS // 4, NS // 2, 3 * NS // 2])
        n = rng.randint(3, 9)
        ts = list(range(n)) if rng.random() < 0.7 else sorted(rng.sample(range(0, 3 * n), n))
        xs = [rng.choice(alpha + [F(2)]) for _ in range(n)]
        check = rng.choice(["std", "range"])
        tp = rng.choice([1, 2, 3])
        mo, mp = rng.choice([(None, 1), (None, 2), (None, 3), (None, 0), (2, None), (None, None)])
        c0 = mk(xs, ts, check, F(1), F(1, 2), tp, mo, mp)
        c0["unit_ns"] = unit
        sp = spreads(xs, secs_of(c0), check, tp)
        for st, ft in threshold_pairs(check, sp, rng, 1):
            c = mk(xs, ts, check, st, ft, tp, mo, mp)
            c["unit_ns"] = unit
            cases.append(c)
    # large whole numbers (raw counts: +-20000 fits int16, +-100 fits int8) whose RANGE does not fit the narrow type
    for _ in range(60 if tier == "quick" else 600):
        big = rng.choice([20000, 100, 30000, 120])
        n = rng.randint(3, 7)
        xs = [F(rng.choice([-big, big, 5, 10, 0, -big + 1, big - 3])) for _ in range(n)]
        ts = list(range(n))
        tp = rng.choice([None, None, 2, 3])
        check = rng.choice(["range", "range", "std"])
        sp = spreads(xs, ts, check, tp)
        for st, ft in threshold_pairs(check, sp, rng, 1):
            c = mk(xs, ts, check, st, ft, tp, None, None)
            c["wide"] = True
            cases.append(c)
    # the standard deviation of values far from zero (2^30 + small steps; every value a float exactly): the spread is
    # that of the small steps - thresholds a factor 4 away from every spread, so that only a formula that cancels
    # catastrophically (E[x^2] - E[x]^2) gets it wrong
    for _ in range(60 if tier == "quick" else 600):
        off = F(rng.choice([2 ** 30, -(2 ** 31), 10 ** 9]))
        n = rng.randint(3, 7)
        xs = [None if rng.random() < 0.1 else off + rng.choice([F(0), F(1), F(3), F(1, 2), F(2)]) for _ in range(n)]
        ts = list(range(n))
        tp = rng.choice([None, None, 2, 3])
        sp = [v for v in spreads(xs, ts, "std", tp) if v]
        if not sp:
            continue
        lo, hi = F(dyadic(math.sqrt(min(sp)))) / 4, F(dyadic(math.sqrt(max(sp)))) * 4
        for st, ft in ((hi, lo), (lo, lo / 2), (hi * 2, hi)):
            if lo > 0:
                cases.append(mk(xs, ts, "std", st, ft, tp, None, None))
    # decimal sub-second steps (10 Hz, 5 Hz, 0.3 s): the step is not a binary fraction, so the code's float quotient
    # min_period / step is only kept where true division followed by truncation gives the exact count (checked
    # here in the same float arithmetic) - there the property fixes the count, and a different float recipe
    # (floor division: 6 // 0.1 = 59) is a deviation
    for _ in range(150 if tier == "quick" else 1500):
        unit = rng.choice([NS // 10, NS // 10, NS // 5, 3 * NS // 10])
        mp = rng.choice([1, 1, 2, 3])
        need_obs = (mp * NS) // unit
        if int(mp / (unit / 1e9)) != need_obs or (mp * NS) % unit != 0:
            continue
        n = rng.randint(need_obs - 1, need_obs + 4)
        ts = list(range(n))
        xs = [rng.choice([F(0), F(1), F(3), F(2), F(1), F(3)] + ([None] if rng.random() < 0.3 else [])) for _ in range(n)]
        check = rng.choice(["std", "range"])
        tp = mp + rng.choice([0, 0, 1])
        c0 = mk(xs, ts, check, F(1), F(1, 2), tp, None, mp)
        c0["unit_ns"] = unit
        sp = spreads(xs, secs_of(c0), check, tp)
        for st, ft in threshold_pairs(check, sp, rng, 1):
            c = mk(xs, ts, check, st, ft, tp, None, mp)
            c["unit_ns"] = unit
            cases.append(c)
    cases += big_shift_copies(cases, "xs", rng, 150 if tier == "quick" else 1500, lambda c: c.get("check") == "range")
    return cases
