"""Stream front ends (PandasStream, NumpyStream, NetcdfStream, XarrayStream, QcConfig.run) against the
Coq models of Stream.v, with probe tests registered at run time inside this process only."""
import datetime as dt
from fractions import Fraction as F

import core
from adapters import Adapter
from core import clist, coq_bool, coq_string, q, z

CODES = [1, 2, 3, 4, 9]
NS = 10 ** 9
T0 = 1577836800  # 2020-01-01T00:00:00


# ------------------------------------------------------------------ probe tests

def _k(x):
    if x is None or x != x:
        return 7
    return int(F(float(x)) * 64 // 1)


def _canon_time(t):
    import numpy as np
    import pandas as pd

    if t is None:
        return None
    arr = pd.DatetimeIndex(np.asarray(t).ravel()).asi8
    return [int(v) for v in arr]


def _canon_vals(a):
    import numpy as np

    if a is None:
        return None
    arr = np.ma.filled(np.ma.masked_invalid(np.asarray(a, dtype="float64").ravel()), np.nan)
    return [None if v != v else core.fr(F(float(v))) for v in arr.tolist()]


def _probe_flags(inp, tinp, zinp, lon, lat, p):
    import numpy as np

    xs = _canon_vals(inp)
    ts = _canon_time(tinp)
    zs, los, las = _canon_vals(zinp), _canon_vals(lon), _canon_vals(lat)
    out = []
    n = len(xs)
    # an axis of another length than the data (e.g. an empty placeholder) is tolerated: it enters as a constant
    ts = ts if ts is None or len(ts) == n else [23 * NS] * n
    zs = zs if zs is None or len(zs) == n else ["29"] * n
    los = los if los is None or len(los) == n else ["31"] * n
    las = las if las is None or len(las) == n else ["37"] * n
    for i, x in enumerate(xs):
        k = _k(None if x is None else F(x))
        kp = 3 if i == 0 else _k(None if xs[i - 1] is None else F(xs[i - 1]))
        t = 11 if ts is None else ts[i] // NS
        zk = 13 if zs is None else _k(None if zs[i] is None else F(zs[i]))
        lo = 17 if los is None else _k(None if los[i] is None else F(los[i]))
        la = 19 if las is None else _k(None if las[i] is None else F(las[i]))
        out.append(CODES[(k + 2 * kp + 3 * t + 5 * zk + 7 * lo + 11 * la + p) % 5])
    return np.ma.array(np.array(out, dtype="uint8"))


class ProbeError(Exception):
    pass


OTHER_EXC = [KeyError, IndexError, AttributeError, RuntimeError, ZeroDivisionError, ProbeError, AssertionError]


def _faults(inp, fault, p=0):
    import numpy as np

    if fault == 1:
        raise ValueError("probe: configured to raise")
    if fault == 3:
        # any Exception class must be caught by Call.run, not only the usual ValueError / TypeError
        raise OTHER_EXC[p % len(OTHER_EXC)]("probe: configured to raise")
    if fault == 2 and np.asarray(inp).size < 2:
        raise ValueError("probe: needs two rows")


def probe_test(inp, tinp=None, zinp=None, lon=None, lat=None, p=0, fault=0):
    _faults(inp, fault, p)
    return _probe_flags(inp, tinp, zinp, lon, lat, p)


def probe_test_b(inp, tinp=None, zinp=None, lon=None, lat=None, p=0, fault=0):
    _faults(inp, fault, p)
    return _probe_flags(inp, tinp, zinp, lon, lat, p)


def probe_needs_z(inp, zinp, tinp=None, lon=None, lat=None, p=0, fault=0):
    _faults(inp, fault, p)
    return _probe_flags(inp, tinp, zinp, lon, lat, p)


def probe_needs_t(inp, tinp, zinp=None, lon=None, lat=None, p=0, fault=0):
    _faults(inp, fault, p)
    return _probe_flags(inp, tinp, zinp, lon, lat, p)


PROBES = {"probe_test": (probe_test, 0), "probe_test_b": (probe_test_b, 0),
          "probe_needs_z": (probe_needs_z, 1), "probe_needs_t": (probe_needs_t, 2)}


def register():
    import ioos_qc.qartod as qm

    for name, (fn, _) in PROBES.items():
        fn.__module__ = "ioos_qc.qartod"
        setattr(qm, name, fn)


# ------------------------------------------------------------------ case -> python objects

def _vals(col):
    import numpy as np

    return np.array([np.nan if v is None else float(F(v)) for v in col], dtype="float64")


def _times(case):
    import numpy as np

    if any(s is None for s in case["time"]):      # a record without a time stamp: NaT
        return np.array([np.datetime64("NaT") if s is None else np.datetime64(s * NS, "ns") for s in case["time"]],
                        dtype="datetime64[ns]")
    return np.array([s * NS for s in case["time"]], dtype="int64").astype("datetime64[ns]")


WINDOW_FORMS = ("datetime", "iso", "utc", "timestamp", "dt64", "iso_z", "utc_timestamp", "offset", "iso_offset")


def _bound(s, form="datetime"):
    """a window bound, s seconds after the epoch, in one of the forms a configuration can carry it:
    naive datetime (YAML timestamp without offset), ISO string (JSON / quoted YAML), UTC-aware datetime
    (YAML timestamp written with Z), pandas Timestamp, numpy datetime64"""
    if s is None:
        return None
    d = dt.datetime(1970, 1, 1) + dt.timedelta(seconds=s)
    if form == "iso":
        return d.isoformat()
    if form == "utc":
        return d.replace(tzinfo=dt.timezone.utc)
    if form == "iso_z":                       # JSON / quoted YAML text with the Z designator
        return d.isoformat() + "Z"
    if form == "utc_timestamp":
        import pandas as pd
        return pd.Timestamp(d, tz="UTC")
    if form in ("offset", "iso_offset"):      # the same instant written in another zone (+05:30)
        tz = dt.timezone(dt.timedelta(hours=5, minutes=30))
        loc = d.replace(tzinfo=dt.timezone.utc).astimezone(tz)
        return loc if form == "offset" else loc.isoformat()
    if form == "timestamp":
        import pandas as pd
        return pd.Timestamp(d)
    if form == "dt64":
        import numpy as np
        return np.datetime64(d, "s")
    return d


def build_config(case):
    ctxs = []
    body = None if case.get("null_bodies") else {"p": 1}     # an entry that cannot run may be written without a body
    for c in case["cfg"]:
        streams = {}
        for cl in c["entries"]:
            if cl["kind"] == "unknown_module":
                streams.setdefault(cl["stream"], {}).setdefault("nomodule", {})["some_test"] = body
            elif cl["kind"] == "unknown_test":
                streams.setdefault(cl["stream"], {}).setdefault("qartod", {})["no_such_test"] = body
            else:
                kw = {"p": cl["p"]}
                if cl["fault"]:
                    kw["fault"] = cl["fault"]
                if "falsy_body" in cl:
                    # "no parameters" written as an empty list / false / 0 / '' instead of an empty mapping
                    kw = {"list": [], "false": False, "zero": 0, "empty": ""}[cl["falsy_body"]]
                streams.setdefault(cl["stream"], {}).setdefault("qartod", {})[cl["test"]] = kw
        ctx = {"streams": streams}
        if c["start"] is not None or c["end"] is not None:
            wf = case.get("wform", "datetime")
            w = {"starting": _bound(c["start"], wf), "ending": _bound(c["end"], wf)}
            wk = case.get("wkeys", "se")
            if wk in ("es", "omit_es"):
                w = {"ending": w["ending"], "starting": w["starting"]}       # a mapping has no key order
            if wk in ("omit", "omit_es"):
                w = {k: v for k, v in w.items() if v is not None}            # an absent bound may simply be left out
            ctx["window"] = w
        ctxs.append(ctx)
    # one context may also be written on its own, and one without window as the bare stream mapping
    if len(ctxs) == 1 and case.get("layout") == "single":
        return ctxs[0]
    if len(ctxs) == 1 and case.get("layout") == "bare" and "window" not in ctxs[0] \
            and any(isinstance(kw, dict) for mods in ctxs[0]["streams"].values() for ts in mods.values() for kw in ts.values()):
        return ctxs[0]["streams"]         # (without any parameter mapping the bare form is misread: F12a)
    return {"contexts": ctxs}


def run_frontend(case):
    """-> list of yielded ContextResults"""
    import numpy as np
    import pandas as pd
    import xarray as xr
    from ioos_qc.config import Config
    from ioos_qc.streams import NetcdfStream, NumpyStream, PandasStream, XarrayStream

    register()
    cfg = Config(build_config(case))
    fe = case["frontend"]
    has_t = case["time"] is not None
    # axis columns / variables under the default names, or under the user's own names given to the constructor
    nm = case.get("axis_names") or {"time": "time", "z": "z", "lat": "lat", "lon": "lon"}
    named = {} if not case.get("axis_names") else dict(nm)
    if fe == "pandas":
        d = {}
        if has_t:
            d[nm["time"]] = _times(case)
        for ax in ("z", "lat", "lon"):
            if case[ax] is not None:
                d[nm[ax]] = _vals(case[ax])
        for name, col in case["cols"]:
            d[name] = _vals(col)
        df = pd.DataFrame(d, index=case["index"])
        if has_t and case.get("time_tz"):         # the same instants in a timezone-aware column
            df[nm["time"]] = pd.DatetimeIndex(_times(case)).tz_localize("UTC").tz_convert(case["time_tz"])
        return list(PandasStream(df, **named).run(cfg))
    if fe == "numpy":
        kw = {"inp": {name: _vals(col) for name, col in case["cols"]}}
        if has_t:
            kw["time"] = _times(case)
        for ax in ("z", "lat", "lon"):
            if case[ax] is not None:
                kw[ax] = _vals(case[ax])
        return list(NumpyStream(**kw).run(cfg))
    # xarray / netcdf: a Dataset with dimension "time"
    tn = nm["time"]
    dv = {name: ((tn,), _vals(col)) for name, col in case["cols"]}
    for ax in ("z", "lat", "lon"):
        if case[ax] is not None:
            dv[nm[ax]] = ((tn,), _vals(case[ax]))
    coords = {tn: _times(case)} if has_t else {}
    if case.get("orphan"):
        # a variable on ANOTHER dimension (a profile next to the time series): no time / depth / position belongs to it
        dv[case["orphan"]["name"]] = (("odim",), _vals(case["orphan"]["vals"]))
    ds = xr.Dataset(dv, coords=coords)
    if fe == "xarray":
        return list(XarrayStream(ds, **named).run(cfg))
    if fe == "netcdf":
        return list(NetcdfStream(ds, **named).run(cfg))
    raise ValueError(fe)


def canon_results(case, results):
    import numpy as np

    out = []
    for r in results:
        flags = None
        if len(r.results) == 1:
            flags = core.canon_flags(r.results[0].results)
        elif len(r.results) > 1:
            flags = "X:multiple"
        mask = np.asarray(r.subset_indexes)
        out.append({
            "stream": r.stream_id,
            "flags": flags,
            "mask": ("X:shape" + str(mask.shape)) if mask.ndim != 1 else [bool(b) for b in mask.tolist()],
            "data": _canon_vals(r.data),
            "tinp": _canon_time(r.tinp),
            "zinp": _canon_vals(r.zinp), "lon": _canon_vals(r.lon), "lat": _canon_vals(r.lat),
        })
    return out


class StreamRun(Adapter):
    name = "stream_run"
    imports = ["Base", "Stream", "StreamProbe"]
    rtype = "srun"
    eqb = "srun_eqb"

    def impl(self, case):
        import warnings

        try:
            with warnings.catch_warnings():
                warnings.simplefilter("ignore")
                import logging
                logging.disable(logging.CRITICAL)
                res = run_frontend(case)
            present = {"time": case["time"] is not None, "z": case["z"] is not None,
                       "lon": case["lon"] is not None, "lat": case["lat"] is not None}
            return "S:" + core.json.dumps({"present": present, "rs": canon_results(case, res)}), []
        except Exception as e:  # noqa: BLE001
            return core.canon_exc(e), []

    # ---- Coq terms
    @staticmethod
    def _ol(vals):
        return "None" if vals is None else f"(Some {core.obs_list([None if v is None else F(v) for v in vals])})"

    def _table(self, case):
        n = case["n"]
        tm = "None" if case["time"] is None else f"(Some {clist([z(s * NS) for s in case['time']])})"
        cols = clist([f"({coq_string(name)}, {core.obs_list([None if v is None else F(v) for v in col])})"
                      for name, col in case["cols"]])
        return (f"{{| t_n := {n}%nat; t_time := {tm}; t_z := {self._ol(case['z'])}; t_lon := {self._ol(case['lon'])}; "
                f"t_lat := {self._ol(case['lat'])}; t_cols := {cols}; t_index := {clist([z(i) for i in case['index']])} |}}")

    def _cfg(self, case):
        ctxs = []
        for c in case["cfg"]:
            calls = []
            for cl in c["entries"]:
                if cl["kind"] != "call":
                    continue     # unknown module / test name: skipped when the config is parsed
                tid = PROBES[cl["test"]][1]
                calls.append(f"{{| cl_stream := {coq_string(cl['stream'])}; cl_test := {tid}%nat; "
                             f"cl_kw := ({z(cl['p'])}, {cl['fault']}%nat) |}}")
            s = "None" if c["start"] is None else f"(Some {z(c['start'] * NS)})"
            e = "None" if c["end"] is None else f"(Some {z(c['end'] * NS)})"
            ctxs.append(f"{{| w_start := {s}; w_end := {e}; cx_calls := {clist(calls)} |}}")
        return clist(ctxs)

    MODEL_FN = {"pandas": "pandas_run", "numpy": "numpy_run", "netcdf": "numpy_run", "xarray": "xarray_run"}

    def model(self, case):
        return (f"({self.MODEL_FN[case['frontend']]} TestId Kw probe (group_contexts TestId Kw {self._cfg(case)}) "
                f"{self._table(case)})")

    def spec(self, case):
        return f"(spec_run TestId Kw probe (group_contexts TestId Kw {self._cfg(case)}) {self._table(case)})"

    def expected(self, canon):
        if canon.startswith("R:"):
            return "(SRaises ValueError)"
        blob = core.json.loads(canon[2:])
        rs, pres = blob["rs"], blob["present"]
        items = []
        for r in rs:
            if isinstance(r["mask"], str) or (r["flags"] is not None and not r["flags"].startswith("F:")):
                return None
            if r["flags"] is None:
                fl = "None"
            else:
                o = core.outcome_coq(r["flags"])
                if o is None:
                    return None
                fl = "(Some " + o[len("(Flags "):-1] + ")"

            def ax(name, present, kind):
                v = r[name]
                if not present:
                    return None if v else "None"
                if kind == "t":
                    return f"(Some {clist([z(x) for x in v])})"
                return self._ol(v)
            t = ax("tinp", pres["time"], "t")
            zz, lo, la = ax("zinp", pres["z"], "v"), ax("lon", pres["lon"], "v"), ax("lat", pres["lat"], "v")
            if None in (t, zz, lo, la):
                return None
            rows = (f"{{| rw_inp := {core.obs_list([None if v is None else F(v) for v in r['data']])}; rw_tinp := {t}; "
                    f"rw_zinp := {zz}; rw_lon := {lo}; rw_lat := {la} |}}")
            items.append(f"{{| s_stream := {coq_string(r['stream'])}; s_flags := {fl}; "
                         f"s_mask := {clist([coq_bool(b) for b in r['mask']])}; s_rows := {rows} |}}")
        return f"(SList {clist(items)})"

    def printed_to_canon(self, printed):
        return printed

    def nontrivial(self, case, canon):
        return canon.startswith("R:") or len(case["cfg"]) >= 1 and case["n"] >= 2


# ------------------------------------------------------------------ generator

def gen_table(rng, n):
    steps = [rng.choice([1, 1, 2, 60, 900]) for _ in range(n)]
    t, time = T0 + rng.randint(0, 5), []
    for s in steps:
        time.append(t)
        t += s

    def col():
        return [None if rng.random() < 0.15 else core.fr(F(rng.randint(-128, 640), 64)) for _ in range(n)]

    return time, col


def gen_stream(tier, rng, frontends=("pandas", "numpy", "netcdf", "xarray"), faults=False, wforms=True):
    cases = []
    count = 140 if tier == "quick" else 1200
    for _ in range(count):
        n = rng.choice([0, 1, 2, 3, 3, 4, 5, 6])
        time, col = gen_table(rng, n)
        has_time = rng.random() < 0.9
        axes = {ax: (col() if rng.random() < 0.6 else None) for ax in ("z", "lat", "lon")}
        for ax in axes:
            if axes[ax] is not None and rng.random() < 0.2:
                axes[ax] = ["0"] * n                      # falsy values: depth 0, equator, Greenwich
        cols = [["v1", col()]] + ([["v2", col()]] if rng.random() < 0.5 else [])
        idx_kind = rng.choice(["default", "default", "default", "offset", "reversed", "shuffled", "repeated"])
        index = list(range(n))
        if idx_kind == "repeated":
            index = [i // 2 for i in index]            # concatenated frames: row labels are not unique
        if idx_kind == "offset":
            index = [i + 10 for i in index]
        elif idx_kind == "reversed":
            index = index[::-1]
        elif idx_kind == "shuffled":
            rng.shuffle(index)
        # windows: distinct per context
        nctx = rng.randint(1, 3)
        windows, seen = [], set()
        tries = 0
        while len(windows) < nctx and tries < 50:
            tries += 1
            kind = rng.choice(["none", "closed", "start_only", "end_only", "empty", "all", "at_stop"])
            lo_t = time[0] if n else T0
            hi_t = time[-1] if n else T0
            if kind == "none":
                w = (None, None)
            elif kind == "closed":
                a = rng.randint(lo_t - 1, hi_t + 1)
                b = rng.randint(a, hi_t + 2)
                w = (a, b)
            elif kind == "start_only":
                w = (rng.randint(lo_t - 1, hi_t + 1), None)
            elif kind == "end_only":
                w = (None, rng.randint(lo_t - 1, hi_t + 2))
            elif kind == "empty":
                w = (hi_t + 10, hi_t + 20)
            elif kind == "all":
                w = (lo_t - 5, hi_t + 5)
            else:  # a row exactly at `ending`
                w = (lo_t - 1, rng.choice(time) if n else T0)
            if w in seen:
                continue
            seen.add(w)
            windows.append(w)
        if len(windows) >= 2 and rng.random() < 0.25:
            windows.append(windows[0])           # the same context listed again later (A, B, A)
        cfg = []
        for (a, b) in windows:
            entries = []
            streams = ["v1"] + (["v2"] if len(cols) > 1 and rng.random() < 0.6 else [])
            if rng.random() < 0.15:
                streams.insert(rng.randint(0, len(streams)), "nope")   # stream id absent from the data, anywhere in the order
            if rng.random() < 0.3:
                streams.reverse()
            for sname in streams:
                tests = rng.sample(["probe_test", "probe_test_b", "probe_needs_z", "probe_needs_t"], rng.randint(1, 2))
                for tname in tests:
                    fault = 0
                    if faults and rng.random() < 0.35:
                        fault = rng.choice([1, 2, 3, 3])
                    entries.append({"kind": "call", "stream": sname, "test": tname, "p": rng.randint(0, 4), "fault": fault})
                    if faults and not fault and rng.random() < 0.08:
                        # a test configured without parameters (all defaults), the empty block spelled as a falsy
                        # non-mapping: it runs like the same test with `{}`
                        entries[-1]["p"] = 0
                        entries[-1]["falsy_body"] = rng.choice(["list", "false", "zero", "empty"])
                if faults and rng.random() < 0.3:
                    entries.insert(rng.randint(0, len(entries)),
                                   {"kind": rng.choice(["unknown_module", "unknown_test"]), "stream": sname})
            # config dicts group by stream then module then test: mirror that order
            order = []
            for e in entries:
                if e["stream"] not in order:
                    order.append(e["stream"])
            entries = [e for s in order for e in entries if e["stream"] == s]
            cfg.append({"start": a, "end": b, "entries": entries})
        # rows need not be chronological (appended deployments, newest first, late records): a window is a
        # predicate on each row's own time, not a block of positions
        order = rng.choice(["sorted", "sorted", "sorted", "appended", "descending", "shuffled"])
        time_u = list(time)
        if n >= 2 and order == "appended":
            k = rng.randint(1, n - 1)
            time_u = time[k:] + time[:k]
        elif order == "descending":
            time_u = time[::-1]
        elif order == "shuffled":
            rng.shuffle(time_u)
        for fe in frontends:
            if fe in ("xarray", "netcdf") and not has_time and n == 0:
                continue
            # (xarray selects by label slice, which needs a sorted coordinate: chronological rows only)
            cases.append({"frontend": fe, "n": n, "time": (time if fe == "xarray" else time_u) if has_time else None,
                          "z": axes["z"], "lat": axes["lat"],
                          "lon": axes["lon"], "cols": cols, "index": index if fe == "pandas" else list(range(n)),
                          "cfg": cfg})
            if rng.random() < 0.4:
                cases[-1]["wkeys"] = rng.choice(["es", "omit", "omit_es"])
            if fe != "numpy" and rng.random() < 0.3:
                # the user's own column / variable names for the axes, told to the constructor
                cases[-1]["axis_names"] = {"time": "obs_t", "z": "depth_m", "lat": "y_deg", "lon": "x_deg"}
            if fe == "pandas" and has_time and n and rng.random() < 0.2 and all(t is not None for t in time):
                cases[-1]["time_tz"] = rng.choice(["UTC", "Asia/Karachi", "America/St_Johns"])
            if len(cfg) == 1 and rng.random() < 0.5:
                cases[-1]["layout"] = rng.choice(["single", "bare"])
            if faults and rng.random() < 0.4:
                cases[-1]["null_bodies"] = True
            if wforms and not faults and has_time and rng.random() < 0.35 \
                    and any(c["start"] is not None or c["end"] is not None for c in cfg):
                cases[-1]["wform"] = rng.choice(WINDOW_FORMS[1:])       # the same instants, spelled differently
    return cases


def grouped_cfg(cfg):
    """Config.contexts: calls grouped by equal window, groups in first-seen order (contexts without calls
    that survive parsing do not create a group)"""
    out = []
    for c in cfg:
        ents = [e for e in c["entries"] if e["kind"] == "call"]
        if not ents:
            continue
        for g in out:
            if g["start"] == c["start"] and g["end"] == c["end"]:
                g["entries"] += ents
                break
        else:
            out.append({"start": c["start"], "end": c["end"], "entries": list(ents)})
    return out


class StreamSpec(StreamRun):
    """implementation vs the specification (half-open window rows) — the property itself"""
    name = "stream_run_spec"

    def model(self, case):
        return StreamRun.spec(self, case)


def xarray_deviates(case):
    """F9: the window forms XarrayStream does not honour"""
    if not isinstance(case, dict) or case.get("frontend") != "xarray" or case.get("time") is None:
        return False
    for c in case["cfg"]:
        if (c["start"] is None) != (c["end"] is None):
            return True
        if c["end"] is not None and c["end"] in case["time"]:
            return True
    return False


# ------------------------------------------------------------------ predicates on the implementation

def collected_dict(case):
    """run the front end and collect (dict form) -> {(stream, pkg, test): [flags]}"""
    import logging
    import warnings

    from ioos_qc.results import collect_results

    logging.disable(logging.CRITICAL)
    with warnings.catch_warnings():
        warnings.simplefilter("ignore")
        res = run_frontend(case)
        produced = [(i, r.stream_id, r.results[0].test) for i, r in enumerate(res) if len(r.results) == 1]
        col = collect_results(res, how="dict")
        lst = collect_results(res, how="list")
    out = {}
    for stream, pk in col.items():
        for pkg, tests in pk.items():
            for test, arr in tests.items():
                out[(stream, pkg, test)] = core.canon_flags(arr)
    # list form (what the stores use): flags AND the data / axes each CollectedResult carries
    import fn_collect as fc
    for cr in lst:
        out[("list", cr.stream_id, cr.package, cr.test)] = [
            fc._canon_arr(cr.results, "f"), fc._canon_arr(cr.data, "d"), fc._canon_arr(cr.tinp, "t"),
            fc._canon_arr(cr.zinp, "d"), fc._canon_arr(cr.lat, "d"), fc._canon_arr(cr.lon, "d")]
    return out, res


def fault_isolation_failures(case):
    """C18 on the implementation: the run completes, failing entries contribute nothing, and the other
    results equal those of the configuration without the failing entries / of each entry alone."""
    fails = []
    try:
        full, res = collected_dict(case)
    except Exception as e:  # noqa: BLE001
        return [{"kind": "predicate", "function": "stream_run+collect", "case": case, "impl": core.canon_exc(e),
                 "clause": "the run did not complete although only individual tests were faulty"}]
    # which entries produced a result, per context (yield order = context order, then call order)
    produced = set()
    it = iter(res)
    orphan = (case.get("orphan") or {}).get("name")
    for ci, c in enumerate(grouped_cfg(case["cfg"])):
        for ei, e in enumerate(c["entries"]):
            if e["kind"] == "call" and e["stream"] == orphan:
                # the variable exists, but the stream has no time / depth for it: the test needs one and cannot run
                r = next(it, None)
                if r is not None and len(r.results) != 0:
                    fails.append({"kind": "predicate", "function": "stream_run+collect", "case": case,
                                  "impl": core.canon_flags(r.results[0].results),
                                  "clause": "a test whose required time / depth input the stream does not supply for "
                                            "its variable produced a result"})
                continue
            if e["kind"] != "call" or e["stream"] not in [n for n, _ in case["cols"]]:
                continue
            r = next(it, None)
            if r is not None and len(r.results) == 1:
                produced.add((ci, ei))
    healthy = dict(case)
    healthy["cfg"] = [{"start": c["start"], "end": c["end"],
                       "entries": [e for ei, e in enumerate(c["entries"]) if (ci, ei) in produced]}
                      for ci, c in enumerate(grouped_cfg(case["cfg"]))]
    try:
        only, _ = collected_dict(healthy)
    except Exception as e:  # noqa: BLE001
        return [{"kind": "harness", "function": "stream_run+collect", "case": case, "impl": core.canon_exc(e),
                 "clause": "healthy-only configuration failed"}]
    if full != only:
        fails.append({"kind": "predicate", "function": "stream_run+collect", "case": case,
                      "impl": {str(k): v for k, v in full.items()}, "healthy_only": {str(k): v for k, v in only.items()},
                      "clause": "results change when the failing entries are removed from the configuration"})
    return fails


def direct_call_failures(case):
    """C05 on the implementation: flags of each yielded result == the probe called directly on the window rows"""
    import logging
    import warnings

    import numpy as np

    fails = []
    logging.disable(logging.CRITICAL)
    try:
        with warnings.catch_warnings():
            warnings.simplefilter("ignore")
            res = run_frontend(case)
    except Exception as e:  # noqa: BLE001
        return [{"kind": "predicate", "function": "stream_run", "case": case, "impl": core.canon_exc(e),
                 "clause": "front end raised"}]
    it = iter(res)
    names = [n for n, _ in case["cols"]]
    for c in grouped_cfg(case["cfg"]):
        if case["time"] is None:
            m = [True] * case["n"]
        else:
            m = [(c["start"] is None or c["start"] <= t) and (c["end"] is None or t < c["end"]) for t in case["time"]]
        for e in c["entries"]:
            if e["kind"] != "call" or e["stream"] not in names:
                continue
            r = next(it, None)
            if r is None:
                fails.append({"kind": "predicate", "function": "stream_run", "case": case, "impl": "missing result",
                              "clause": "fewer results than configured calls"})
                return fails
            col = dict((n, v) for n, v in case["cols"])[e["stream"]]
            sel = [i for i, b in enumerate(m) if b]
            kw = {"inp": _vals([col[i] for i in sel])}
            if case["time"] is not None:
                kw["tinp"] = _times({"time": [case["time"][i] for i in sel]})
            for ax, name in (("z", "zinp"), ("lon", "lon"), ("lat", "lat")):
                if case[ax] is not None:
                    kw[name] = _vals([case[ax][i] for i in sel])
            fn = PROBES[e["test"]][0]
            try:
                want = core.canon_flags(fn(p=e["p"], fault=e["fault"], **kw))
            except Exception:  # noqa: BLE001
                want = None
            got = core.canon_flags(r.results[0].results) if len(r.results) == 1 else None
            gmask = [bool(b) for b in np.asarray(r.subset_indexes).tolist()] if np.asarray(r.subset_indexes).ndim == 1 else "shape"
            if got != want or gmask != m:
                fails.append({"kind": "predicate", "function": "stream_run", "case": case,
                              "impl": {"flags": got, "mask": gmask}, "direct": {"flags": want, "mask": m},
                              "clause": "flags differ from the test called directly on the window rows"})
                return fails
    return fails


def gen_orphan_cases(tier, rng):
    """xarray datasets that also hold a variable on another dimension (shorter than the time series), configured
    - after healthy entries of the same context - with a probe that REQUIRES time or depth: it cannot run"""
    out = []
    base = [c for c in gen_stream(tier, rng, frontends=("xarray",), faults=True, wforms=False)
            if c["time"] is not None and c["z"] is not None and c["n"] >= 2 and not xarray_deviates(c)]
    for c in base:
        import copy
        d = copy.deepcopy(c)
        m = rng.randint(1, c["n"] - 1)
        d["orphan"] = {"name": "vorph", "vals": [core.fr(F(rng.randint(-64, 64), 64)) for _ in range(m)]}
        placed = False
        for ctx in d["cfg"]:
            if any(e["kind"] == "call" and e["stream"] != "nope" for e in ctx["entries"]) or not placed:
                pos = rng.randint(1, len(ctx["entries"])) if ctx["entries"] else 0
                ctx["entries"].insert(pos, {"kind": "call", "stream": "vorph",
                                            "test": rng.choice(["probe_needs_z", "probe_needs_t"]),
                                            "p": rng.randint(0, 4), "fault": 0})
                # entries of one stream stay together (a config is a mapping stream -> tests)
                order = []
                for e in ctx["entries"]:
                    if e["stream"] not in order:
                        order.append(e["stream"])
                ctx["entries"] = [e for s_ in order for e in ctx["entries"] if e["stream"] == s_]
                placed = True
        out.append(d)
    return out


def gen_axis_stream_cases(tier, rng):
    """tables whose depth / position COLUMN is itself a configured stream (QC of the axis), PandasStream: the column is
    then both data and axis"""
    import copy
    out = []
    for c in gen_stream("quick", rng, frontends=("pandas",), wforms=False):
        axes = [ax for ax in ("z", "lat", "lon") if c[ax] is not None]
        if not axes or c.get("axis_names") or c["n"] < 1:
            continue
        d = copy.deepcopy(c)
        d["axis_streams"] = True
        for ctx in d["cfg"]:
            ax = rng.choice(axes)
            pos = rng.randint(0, len(ctx["entries"]))
            ctx["entries"].insert(pos, {"kind": "call", "stream": ax, "test": rng.choice(["probe_test", "probe_needs_z"]),
                                        "p": rng.randint(0, 4), "fault": 0})
            order = []
            for e in ctx["entries"]:
                if e["stream"] not in order:
                    order.append(e["stream"])
            ctx["entries"] = [e for s_ in order for e in ctx["entries"] if e["stream"] == s_]
        out.append(d)
    return out if tier != "quick" else rng.sample(out, min(len(out), 100))


def position_test_isolation_failures(rng, count):
    """C18 with the library's own position tests, whose signatures have no `inp` parameter: a location_test / speed_test
    that cannot run (bbox of three numbers; no lat / lon in the table) drops out, the run completes, and a healthy
    gross_range_test gives the flags it gives alone"""
    import logging
    import warnings

    import numpy as np
    import pandas as pd
    from ioos_qc.config import Config
    from ioos_qc.results import collect_results
    from ioos_qc.streams import NumpyStream, PandasStream

    logging.disable(logging.CRITICAL)
    fails, n_eval = [], 0
    for _ in range(count):
        n = rng.randint(2, 6)
        vals = np.array([float(rng.randint(-3, 14)) for _ in range(n)])
        t = pd.date_range("2020-01-01", periods=n, freq="1h")
        has_pos = rng.random() < 0.5
        bad = rng.choice([("qartod", "location_test", {"bbox": [0, 0, 5]}), ("argo", "speed_test", {"suspect_threshold": 1, "fail_threshold": "x"})]
                         if has_pos else
                         [("qartod", "location_test", {}), ("argo", "speed_test", {"suspect_threshold": 1, "fail_threshold": 3})])
        healthy = {"qartod": {"gross_range_test": {"fail_span": [0, 10], "suspect_span": [1, 9]}}}
        faulty = {bad[0]: dict(healthy.get(bad[0], {}), **{bad[1]: bad[2]})}
        both = {k: dict(healthy.get(k, {}), **faulty.get(k, {})) for k in set(healthy) | set(faulty)}
        order = rng.choice(["bad_first", "bad_last"])
        streams = {"v": both} if order == "bad_last" else {"v": {k: both[k] for k in sorted(both, reverse=True)}}
        fe = rng.choice(["pandas", "numpy"])

        def run(cfgd):
            with warnings.catch_warnings():
                warnings.simplefilter("ignore")
                cfg = Config({"contexts": [{"streams": cfgd}]})
                if fe == "pandas":
                    d = {"time": t, "v": vals}
                    if has_pos:
                        d["lat"], d["lon"] = np.full(n, 10.0), np.arange(n) * 0.5
                    res = PandasStream(pd.DataFrame(d)).run(cfg)
                else:
                    kw = {"time": t.to_numpy()}
                    if has_pos:
                        kw["lat"], kw["lon"] = np.full(n, 10.0), np.arange(n) * 0.5
                    res = NumpyStream(inp=vals, **kw).run(cfg)
                return {(cr.stream_id, cr.test): core.canon_flags(cr.results) for cr in collect_results(res, how="list")}
        n_eval += 2
        case = {"frontend": fe, "n": n, "vals": vals.tolist(), "position_columns": has_pos, "failing_entry": list(bad), "order": order}
        try:
            alone = run({"v" if fe == "pandas" else "_stream": healthy} if False else {"v": healthy})
            full = run(streams)
        except Exception as e:  # noqa: BLE001
            fails.append({"kind": "predicate", "function": "stream_run+collect", "case": case, "impl": core.canon_exc(e),
                          "clause": "the run did not complete although only one test could not run"})
            continue
        if full != alone:
            fails.append({"kind": "predicate", "function": "stream_run+collect", "case": case, "impl": {str(k): v for k, v in full.items()},
                          "expected": {str(k): v for k, v in alone.items()},
                          "clause": "results differ from those of the configuration without the test that cannot run"})
    return n_eval, fails


def gen_nat_cases(tier, rng):
    """tables in which some records have no time stamp (NaT), on the front ends that take plain arrays / tables
    (an xarray time coordinate must be sorted, hence complete)"""
    import copy
    out = []
    for c in gen_stream("quick", rng, frontends=("pandas", "numpy", "netcdf"), wforms=False):
        if c["time"] is None or c["n"] < 2:
            continue
        d = copy.deepcopy(c)
        for i in rng.sample(range(d["n"]), rng.randint(1, 2)):
            d["time"][i] = None
        out.append(d)
    return out if tier != "quick" else rng.sample(out, min(len(out), 150))


def collected_rows_failures(case):
    """C06 end to end on the implementation: run a front end, collect both forms, and compare, row by row,
    with the flags the probe gives when called directly on each context's window rows and put back on those
    rows (later contexts overwrite earlier ones; rows no context covers: masked / UNKNOWN)"""
    import logging
    import warnings

    import fn_collect as fc
    from ioos_qc.results import collect_results

    logging.disable(logging.CRITICAL)
    try:
        with warnings.catch_warnings():
            warnings.simplefilter("ignore")
            res = run_frontend(case)
            lst = collect_results(res, how="list")
            dct = collect_results(res, how="dict")
    except Exception as e:  # noqa: BLE001
        return [{"kind": "predicate", "function": "stream_run+collect", "case": case, "impl": core.canon_exc(e),
                 "clause": "running and collecting raised"}]
    n = case["n"]
    names = [nm for nm, _ in case["cols"]]
    cols = dict((nm, v) for nm, v in case["cols"])
    if case.get("axis_streams"):          # an axis column (depth, position) is itself quality-controlled
        for ax in ("z", "lat", "lon"):
            if case[ax] is not None:
                names.append(ax)
                cols[ax] = case[ax]
    want = {}
    for c in grouped_cfg(case["cfg"]):
        if case["time"] is None:
            m = [True] * n
        else:
            # (a record without a time stamp satisfies no bound: it belongs only to contexts without window)
            m = [(c["start"] is None and c["end"] is None) if t is None else
                 (c["start"] is None or c["start"] <= t) and (c["end"] is None or t < c["end"]) for t in case["time"]]
        sel = [i for i, b in enumerate(m) if b]
        for e in c["entries"]:
            if e["kind"] != "call" or e["stream"] not in names:
                continue
            kw = {"inp": _vals([cols[e["stream"]][i] for i in sel])}
            if case["time"] is not None:
                kw["tinp"] = _times({"time": [case["time"][i] for i in sel]})
            for ax, name in (("z", "zinp"), ("lon", "lon"), ("lat", "lat")):
                if case[ax] is not None:
                    kw[name] = _vals([case[ax][i] for i in sel])
            try:
                cf = core.canon_flags(PROBES[e["test"]][0](p=e["p"], fault=e["fault"], **kw))
            except Exception:  # noqa: BLE001
                continue                        # a test that cannot run contributes nothing
            if not cf.startswith("F:"):
                continue
            fl = [x for x in cf[2:].split(",") if x != ""]
            row = want.setdefault((e["stream"], "qartod", e["test"]), ["M"] * n)
            for i, f in zip(sel, fl):
                row[i] = f
    got_l = {(cr.stream_id, cr.package, cr.test): fc._canon_arr(cr.results, "f") for cr in lst}
    got_d = {(sid, pk, t): fc._canon_arr(a, "f") for sid, pks in dct.items() for pk, ts in pks.items() for t, a in ts.items()}
    norm = lambda r: [x if x in ("M", None) else str(int(F(x))) for x in r]
    want_l = {k: norm(v) for k, v in want.items()}
    want_d = {k: ["2" if x == "M" else x for x in v] for k, v in want_l.items()}
    fails = []
    if {k: norm(v) for k, v in got_l.items()} != want_l:
        fails.append({"kind": "predicate", "function": "stream_run+collect", "case": case,
                      "impl": {str(k): v for k, v in got_l.items()}, "expected": {str(k): v for k, v in want_l.items()},
                      "clause": "list form: collected flags are not the directly computed flags on the window rows"})
    elif {k: norm(v) for k, v in got_d.items()} != want_d:
        fails.append({"kind": "predicate", "function": "stream_run+collect", "case": case,
                      "impl": {str(k): v for k, v in got_d.items()}, "expected": {str(k): v for k, v in want_d.items()},
                      "clause": "dict form: collected flags are not the directly computed flags on the window rows"})
    return fails


def object_reuse_failures(rng, count):
    """One Config object run on two different tables, and one stream object run with two different
    configs, must give what fresh objects give (no state kept in Config / stream objects)."""
    import logging
    import warnings

    import pandas as pd
    from ioos_qc.config import Config
    from ioos_qc.streams import NumpyStream, PandasStream

    logging.disable(logging.CRITICAL)
    register()
    fails, n_eval = [], 0

    def canon(case, res):
        return core.json.dumps(canon_results(case, res))

    for _ in range(count):
        a, b = gen_stream("quick", rng, frontends=(rng.choice(["pandas", "numpy"]),))[:2] if False else (None, None)
        cs = gen_stream("quick", core.Rng(rng.randint(0, 10 ** 9)), frontends=(rng.choice(["pandas", "numpy"]),),
                        wforms=False)
        if len(cs) < 2:
            continue
        a, b = cs[0], cs[1]
        with warnings.catch_warnings():
            warnings.simplefilter("ignore")
            try:
                # (1) a Config object reused on another table
                cfg = Config(build_config(a))
                t2 = dict(b)
                t2["cfg"] = a["cfg"]
                fresh = canon(t2, run_frontend(t2))
                list(_run_with(cfg, a))
                again = canon(t2, list(_run_with(cfg, t2)))
                n_eval += 3
                if again != fresh:
                    fails.append({"kind": "history", "function": "stream_run", "case": {"first": a, "second": t2},
                                  "impl": fresh, "impl_reused_config": again,
                                  "clause": "a Config object reused on another table gives other results than a fresh one"})
            except Exception as e:  # noqa: BLE001
                fails.append({"kind": "history", "function": "stream_run", "case": {"first": a, "second": b},
                              "impl": core.canon_exc(e), "clause": "reusing a Config object raised"})
            try:
                # (3) the same Config run again on the same observations WITHOUT their time / depth axes: a test that
                #     needs such an axis can no longer run and must drop out (nothing remembered from the first run)
                if a["time"] is not None or a["z"] is not None:
                    import copy
                    a3 = copy.deepcopy(a)
                    a3["time"], a3["z"] = None, None
                    cfg = Config(build_config(a))
                    list(_run_with(cfg, a))
                    again = canon(a3, list(_run_with(cfg, a3)))
                    fresh = canon(a3, run_frontend({k: v for k, v in a3.items() if k not in ("axis_names", "time_tz")}))
                    n_eval += 2
                    if again != fresh:
                        fails.append({"kind": "history", "function": "stream_run", "case": {"first": a, "second": a3},
                                      "impl": fresh, "impl_reused_config": again,
                                      "clause": "a Config object run again on a table without time / depth axes gives other "
                                                "results than a fresh one (inputs of the earlier run were kept)"})
            except Exception as e:  # noqa: BLE001
                fails.append({"kind": "history", "function": "stream_run", "case": {"first": a},
                              "impl": core.canon_exc(e), "clause": "re-running a Config object without axes raised"})
            try:
                # (2) a Config whose list of calls is EDITED in place after a run (same number of calls, other
                #     windows): the next run must be that of a fresh Config of the edited configuration
                if a["time"] is not None and any(c["start"] is not None or c["end"] is not None for c in a["cfg"]):
                    import copy
                    a2 = copy.deepcopy(a)
                    for c in a2["cfg"]:
                        if c["start"] is not None:
                            c["start"] += 2
                        if c["end"] is not None:
                            c["end"] += 3
                        if c["start"] is None and c["end"] is None:
                            c["end"] = a["time"][len(a["time"]) // 2] if a["time"] else None
                    cfg = Config(build_config(a))
                    before = len(cfg.calls)
                    list(_run_with(cfg, a))
                    new = Config(build_config(a2))
                    if len(new.calls) == before:
                        cfg.calls[:] = new.calls
                        again = canon(a2, list(_run_with(cfg, a2)))
                        fresh = canon(a2, run_frontend(a2))
                        n_eval += 2
                        if again != fresh:
                            fails.append({"kind": "history", "function": "stream_run", "case": {"first": a, "edited": a2},
                                          "impl": fresh, "impl_edited_config": again,
                                          "clause": "a Config whose calls were edited in place after a run gives other results "
                                                    "than a fresh Config of the edited configuration"})
            except Exception as e:  # noqa: BLE001
                fails.append({"kind": "history", "function": "stream_run", "case": {"first": a},
                              "impl": core.canon_exc(e), "clause": "running an edited Config object raised"})
    return n_eval, fails


def _run_with(cfg, case):
    """run an existing Config object on the table of `case` through the case's front end"""
    import pandas as pd
    from ioos_qc.streams import NumpyStream, PandasStream

    has_t = case["time"] is not None
    if case["frontend"] == "pandas":
        d = {}
        if has_t:
            d["time"] = _times(case)
        for ax in ("z", "lat", "lon"):
            if case[ax] is not None:
                d[ax] = _vals(case[ax])
        for name, col in case["cols"]:
            d[name] = _vals(col)
        return PandasStream(pd.DataFrame(d, index=case["index"])).run(cfg)
    kw = {"inp": {name: _vals(col) for name, col in case["cols"]}}
    if has_t:
        kw["time"] = _times(case)
    for ax in ("z", "lat", "lon"):
        if case[ax] is not None:
            kw[ax] = _vals(case[ax])
    return NumpyStream(**kw).run(cfg)
