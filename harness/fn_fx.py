"""C20 — fx_parser.eval_fx / QcVariableConfig._validate_fx / QcConfigCreator.create_config.

FxEval        a case is a HISTORY of eval_fx calls on the real module (exprStack is never reset
              by the harness): steps that are well-formed expressions or garbage (failing parses,
              invalid identifiers, function calls, ...), then a final well-formed expression.
              Compared: (a) the Coq model `fx_run` (parse_model + evaluate_stack with V := option Q)
              started on the symbols the history left on the stack — value AND the symbols the
              final call pushed; (b) Python's own eval() of the final text.
ValidateFx    token strings over a small alphabet through QcVariableConfig(dict); accepted iff
              the Coq `validate_fx_model` says so (float() passed as a table).
check_create_config   synthetic NetCDF-3 climatologies constant in time, real create_config,
              spans compared with the expressions on nanmin/nanmax/nanmean/nanstd of the cells
              inside the (inclusive) bounding box.

Numeric domain: numbers 2 and 0.5, statistics dyadic; the value is compared exactly with the Q
model when every divisor in the tree is +-2^k (then float64 arithmetic is exact); otherwise only
the pushed symbols are compared with the model and the value with eval()."""
import itertools
import json
import math
import os
import shutil
import tempfile
import warnings
from fractions import Fraction as F

import core
from adapters import Adapter
from core import clist, coq_string, q

STATS = ["min", "max", "mean", "std"]
COQ_STAT = {"min": "SMin", "max": "SMax", "mean": "SMean", "std": "SStd"}
COQ_OP = {"+": "Add", "-": "Sub", "*": "Mul", "/": "Div"}
LVL = {"+": 0, "-": 0, "*": 1, "/": 1}

# (min, max, mean, std), all dyadic
STAT_SETS = [
    ("1", "8", "4", "2"),
    ("-2", "4", "1/2", "1/4"),
    ("-8", "-1", "-4", "1/2"),
    ("0", "2", "1", "1"),
]

GARBAGE = [
    "2 * (", "1 +", "foo + 1", "max ( 1 )", "2 * ( 3", "( 2 + 3 ) )", "2 3", "", ".5", "nan", "1_0",
    "+ - 2", "abs ( - 2 )", "e", "pi", "2 ^ 3", "min max", "sin ( foo )", "2 * ( 3 + )",
    "max ( 1 , 2 )", ") (", "* 2", "- -", "2 /", "std std", "mean (", "( ( 2 )", "trunc ( min",
    "2 - foo", "- bar", "( 2 * min", "min ( 2 ) + 3", "2 +* 3", "mean / ( std - ",
]


# ------------------------------------------------------------------ expression trees

def t_print(t, full, p=0):
    """token list; mirrors Fx.print"""
    k = t[0]
    if k in ("num", "stat"):
        return [t[1]]
    if k == "neg":
        return ["-"] + t_print(t[1], full, 2)
    _, o, a, b = t
    body = t_print(a, full, LVL[o]) + [o] + t_print(b, full, LVL[o] + 1)
    return ["("] + body + [")"] if (full or LVL[o] < p) else body


def t_value(t, st):
    """(exact Fraction value | 'zerodiv', exact_in_float)"""
    k = t[0]
    if k == "num":
        return F(t[1]), True
    if k == "stat":
        return st[t[1]], True
    if k == "neg":
        v, ex = t_value(t[1], st)
        return (v if v == "zerodiv" else -v), ex
    _, o, a, b = t
    # evaluate_stack evaluates op2 first, then op1 — irrelevant for the value, relevant for which
    # exception would surface; only ZeroDivisionError can occur here
    vb, eb = t_value(b, st)
    va, ea = t_value(a, st)
    if va == "zerodiv" or vb == "zerodiv":
        return "zerodiv", ea and eb
    if o == "+":
        return va + vb, ea and eb
    if o == "-":
        return va - vb, ea and eb
    if o == "*":
        return va * vb, ea and eb
    if vb == 0:
        return "zerodiv", ea and eb
    pow2 = abs(vb).numerator == 1 and (abs(vb).denominator & (abs(vb).denominator - 1)) == 0 or \
        abs(vb).denominator == 1 and (abs(vb).numerator & (abs(vb).numerator - 1)) == 0
    r = va / vb
    dy = (r.denominator & (r.denominator - 1)) == 0
    return r, ea and eb and (pow2 or dy)


def t_coq(t):
    k = t[0]
    if k == "num":
        return f"(Num {coq_string(t[1])})"
    if k == "stat":
        return f"(Stat {COQ_STAT[t[1]]})"
    if k == "neg":
        return f"(Neg {t_coq(t[1])})"
    return f"(Bin {COQ_OP[t[1]]} {t_coq(t[2])} {t_coq(t[3])})"


def trees(leaves, depth, with_neg=True):
    """all trees of depth <= depth"""
    level = [l for l in leaves]
    allt = list(level)
    for _ in range(depth - 1):
        new = []
        if with_neg:
            new += [("neg", a) for a in allt]
        new += [("bin", o, a, b) for o in "+-*/" for a in allt for b in allt]
        seen = set(map(repr, allt))
        allt = allt + [t for t in new if repr(t) not in seen]
    return allt


LEAVES6 = [("num", "2"), ("num", "0.5")] + [("stat", s) for s in STATS]
LEAVES2 = [("num", "2"), ("stat", "min")]


def rand_tree(rng, depth):
    if depth <= 1 or rng.random() < 0.15:
        return rng.choice(LEAVES6)
    if rng.random() < 0.2:
        return ("neg", rand_tree(rng, depth - 1))
    return ("bin", rng.choice("+-*/"), rand_tree(rng, depth - 1), rand_tree(rng, depth - 1))


# ------------------------------------------------------------------ python stack symbol -> Coq tok

def tok_coq(o):
    if isinstance(o, (tuple, list)):
        return f"(TFn {coq_string(str(o[0]))} {int(o[1])}%nat)"
    if o == "unary -":
        return "TUnaryMinus"
    if o in COQ_OP:
        return f"(TOp {COQ_OP[o]})"
    if o in COQ_STAT:
        return f"(TStat {COQ_STAT[o]})"
    if o == "^" or o[:1].isalpha():
        return f"(TIdent {coq_string(o)})"
    return f"(TNum {coq_string(o)})"


def jsonable(stack):
    return [list(o) if isinstance(o, tuple) else o for o in stack]


class Fx(Adapter):
    """case: {"steps": [{"fx": text, "stats": i}...], "final": [tokens], "stats": i, "exact": bool}
    canon: JSON {"res": value "p/q" | "zerodiv", "before": symbols the history pushed,
                 "after": the same plus the symbols the final call pushed, "exact": bool}"""
    name = "eval_fx"
    imports = ["Base", "Generated", "Fx"]
    rtype = "fx_out"
    eqb = "fx_out_eqb"

    def __init__(self):
        self._n = 0
        self._obs = {}          # case -> first observation (the prior stack is an observation)

    @staticmethod
    def _stats(i):
        return {k: float(F(v)) for k, v in zip(STATS, STAT_SETS[i])}

    @staticmethod
    def _key(case):
        return json.dumps(case, sort_keys=True)

    def impl(self, case):
        c = self._impl(case)
        self._obs.setdefault(self._key(case), c)
        return c, []

    def _impl(self, case):
        from ioos_qc.config_creator import fx_parser

        stack = fx_parser.exprStack            # the real module-level state; never reset here
        n0 = len(stack)
        for step in case["steps"]:
            nb = len(stack)
            tail = stack[max(0, nb - 40):nb]
            self._n += 1
            whole = list(stack) if self._n % 25 == 0 else None
            try:
                with warnings.catch_warnings():
                    warnings.simplefilter("ignore")
                    fx_parser.eval_fx(step["fx"], self._stats(step["stats"]))
            except Exception:  # noqa: BLE001  (ParseException, "invalid identifier", ...)
                pass
            # the only mutation is append: what was there is still there
            if len(stack) < nb or stack[max(0, nb - 40):nb] != tail or (whole is not None and stack[:nb] != whole):
                return "X:history step modified earlier stack contents: " + step["fx"]
        n1 = len(stack)
        before = list(stack[n0:n1])            # what the history of this case left behind
        text = " ".join(case["final"])
        st = self._stats(case["stats"])

        def outcome(f):
            try:
                with warnings.catch_warnings():
                    warnings.simplefilter("ignore")
                    v = f()
            except ZeroDivisionError:
                return "zerodiv"
            except Exception as e:  # noqa: BLE001
                return "R:" + type(e).__name__
            if isinstance(v, (int, float)) and not isinstance(v, bool) and math.isfinite(v):
                return ("" if isinstance(v, float) else "X:int ") + core.fr(F(v))
            return "X:" + repr(v)

        res = outcome(lambda: fx_parser.eval_fx(text, st))
        if stack[n0:n1] != before:
            return "X:final call modified earlier stack contents"
        # (b) Python's own evaluation of the same text (statistics are floats, numbers may be ints)
        pres = outcome(lambda: eval(text, {"__builtins__": {}}, dict(st)))  # noqa: S307
        if pres.startswith("X:int "):
            pres = pres[len("X:int "):]
        if not case.get("pyeval", True):
            pres = res                         # text outside the property's grammar: model only
        if pres != res:
            return f"X:eval() gives {pres}, eval_fx gives {res}: {text}"
        if res.startswith(("R:", "X:")):
            return "X:" + res + ": " + text
        return json.dumps({"res": res, "before": jsonable(before), "after": jsonable(stack[n0:]),
                           "exact": bool(case["exact"])})

    def expected(self, canon):
        if canon.startswith("X:"):
            return None
        d = json.loads(canon)
        after = clist([tok_coq(o) for o in d["after"]])
        if not d["exact"]:
            return f"(FxStack {after})"
        if d["res"] == "zerodiv":
            return f"(FxZeroDiv {after})"
        return f"(FxVal {q(F(d['res']))} {after})"

    def model(self, case):
        d = json.loads(self._obs[self._key(case)])
        before = clist([tok_coq(o) for o in d["before"]])
        mn, mx, me, sd = (q(F(v)) for v in STAT_SETS[case["stats"]])
        toks = clist([coq_string(t) for t in case["final"]])
        run = f"(fx_run {mn} {mx} {me} {sd} {before} {toks})"
        return run if case["exact"] else f"(fx_stack_only {run})"

    def printed_to_canon(self, printed):
        return printed

    def nontrivial(self, case, canon):
        return len(case["final"]) > 1


def mk_case(rng, tree, full, si, nsteps=None):
    st = dict(zip(STATS, (F(v) for v in STAT_SETS[si])))
    _, exact = t_value(tree, st)
    steps = []
    for _ in range(rng.randint(0, 3) if nsteps is None else nsteps):
        if rng.random() < 0.6:
            fx = rng.choice(GARBAGE)
        else:
            fx = " ".join(t_print(rand_tree(rng, 3), rng.random() < 0.5))
        steps.append({"fx": fx, "stats": rng.randrange(len(STAT_SETS))})
    return {"steps": steps, "final": t_print(tree, full), "stats": si, "exact": bool(exact), "full": full}


def gen_fx(tier, rng):
    cases = []
    small = trees(LEAVES2, 3)                   # every shape / operator pattern of depth <= 3
    for t in small:
        for full in (False, True):
            cases.append(mk_case(rng, t, full, rng.randrange(len(STAT_SETS))))
    for t in trees(LEAVES6, 2):                 # every leaf combination of depth <= 2
        for full in (False, True):
            for si in range(len(STAT_SETS)):
                cases.append(mk_case(rng, t, full, si))
    for _ in range(1500 if tier == "quick" else 15000):
        t = rand_tree(rng, rng.choice([3, 3, 4]))
        cases.append(mk_case(rng, t, rng.random() < 0.4, rng.randrange(len(STAT_SETS))))
    # every garbage text immediately before a fixed expression, and all of them in a row
    probe = ("bin", "-", ("bin", "/", ("stat", "max"), ("num", "2")), ("bin", "*", ("num", "0.5"), ("neg", ("stat", "min"))))
    for g in GARBAGE:
        c = mk_case(rng, probe, False, 0, nsteps=0)
        c["steps"] = [{"fx": g, "stats": 1}]
        cases.append(c)
    c = mk_case(rng, probe, True, 2, nsteps=0)
    c["steps"] = [{"fx": g, "stats": 3} for g in GARBAGE]
    cases.append(c)
    # outside the property's grammar (unary plus): the model is faithful to the code, eval() is not asked
    for text in UNARY_PLUS:
        for si in range(len(STAT_SETS)):
            cases.append({"steps": [{"fx": rng.choice(GARBAGE), "stats": 0}], "final": text.split(" "), "stats": si,
                          "exact": True, "full": False, "pyeval": False})
    return cases


UNARY_PLUS = ["+ 2", "+ - 2", "- + 2", "+ + min", "2 - + - min", "+ - ( 2 + min )", "- + - 2", "2 * + - max"]


def probe_outside_grammar():
    """texts with a unary plus: (text, eval_fx value, Python eval value) where the two differ"""
    from ioos_qc.config_creator import fx_parser

    st = {k: float(F(v)) for k, v in zip(STATS, STAT_SETS[0])}
    out = []
    for text in UNARY_PLUS:
        a = fx_parser.eval_fx(text, st)
        b = float(eval(text, {"__builtins__": {}}, dict(st)))  # noqa: S307
        if a != b:
            out.append((text, a, b))
    return out


# ------------------------------------------------------------------ _validate_fx

ALPHABET = ["^", "abs", "1e3", "-2", "", "mean", "min", "+", "/", "(", ")", "nan", "2.5", "Mean"]


def is_float(t):
    try:
        float(t)
        return True
    except ValueError:
        return False


class ValidateFx(Adapter):
    """case: {"spec": text, "key": name of the limit that carries it}"""
    name = "_validate_fx"
    imports = ["Base", "Generated", "Fx"]
    rtype = "bool"
    eqb = "Bool.eqb"

    def impl(self, case):
        from ioos_qc.config_creator.config_creator import QcVariableConfig

        limits = {"suspect_min": "1", "suspect_max": "2", "fail_min": "0", "fail_max": "3"}
        limits[case["key"]] = case["spec"]
        cfg = {"variable": "temp", "bbox": [0, 0, 1, 1], "start_time": "2020-01-01", "end_time": "2020-02-01",
               "tests": {"gross_range_test": limits}}
        before = json.dumps(cfg, sort_keys=True)
        try:
            QcVariableConfig(cfg)
            canon = "accept"
        except Exception as e:  # noqa: BLE001
            canon = core.canon_exc(e)
        return canon, (["config"] if json.dumps(cfg, sort_keys=True) != before else [])

    def expected(self, canon):
        return {"accept": "true", "R:ValueError": "false"}.get(canon)

    def model(self, case):
        toks = set(case["spec"].split(" ")) | set(ALPHABET)
        nums = clist([coq_string(t) for t in sorted(toks) if is_float(t)])
        return f"(validate_fx_model (number_table {nums}) {coq_string(case['spec'])})"

    def printed_to_canon(self, printed):
        return {"true": "accept", "false": "R:ValueError"}.get(printed.strip(), printed)

    def nontrivial(self, case, canon):
        return True


def gen_validate(tier, rng):
    cases = []
    for n in (1, 2, 3):
        for toks in itertools.product(ALPHABET, repeat=n):
            cases.append({"spec": " ".join(toks), "key": "suspect_min"})
    if tier == "thorough":
        for toks in itertools.product(ALPHABET[:9], repeat=4):
            cases.append({"spec": " ".join(toks), "key": "fail_max"})
    # well-formed limit expressions, compact spellings, other whitespace, other number spellings
    for spec in ["mean - 2 * std", "( mean + std ) / 2", "mean-2*std", "mean -2 * std", "mean\t+ 1", "mean + 1\n",
                 " mean", "mean ", "inf", "-inf", "1_000", "0x10", ".5", "5.", "+2", "1e-3", "Infinity", "NaN",
                 "min ( 1 )", "max ( 1 , 2 )", "( (", "+ +", "std std", "MEAN", "e", "pi", "2 ** 3", "2 // 3",
                 "mean + - std", "- mean", "-mean", "(mean)", "mean,"]:
        for key in ("suspect_min", "fail_max", "suspect_max", "fail_min"):
            cases.append({"spec": spec, "key": key})
    return cases


# ------------------------------------------------------------------ create_config

SPAN_FX = [
    ("min", "max", "mean - 2 * std", "mean + 2 * std"),
    ("mean - std", "mean + std", "min - 0.5", "max + 0.5"),
    ("( min + max ) / 2 - std", "( min + max ) / 2 + std", "- ( max - min )", "2 * ( max - min )"),
    ("min / 2", "max * 2", "- std", "mean + std * std"),
]


def _close(a, b):
    a, b = float(a), float(b)
    return a == b or abs(a - b) <= 1e-9 * max(1.0, abs(a), abs(b))


def check_create_config(rng, n):
    """-> list of failure dicts.  Every grid is constant in time (12 monthly steps).  Categories:
    normal   the selected cells do not sum to zero
    zerosum  the selected cells are valid but sum to exactly zero
    wrapyear as normal, but the 12 monthly steps of the file start in another month than January
    The expected spans are the four limit expressions (Python eval) on numpy's nan-statistics of
    the cells whose lat/lon lie inside the inclusive bounding box."""
    import numpy as np
    import pandas as pd
    import xarray as xr

    from ioos_qc.config_creator import config_creator as cc

    tmp = tempfile.mkdtemp(prefix="fx_nc_", dir=str(core.BUILD) if core.BUILD.exists() else None)
    failures = []
    stats_out = {"cases": 0, "exact": 0, "normal": 0, "zerosum": 0, "wrapyear": 0}
    try:
        for k in range(n):
            nlat, nlon = rng.randint(2, 5), rng.randint(2, 6)
            lat0, lon0 = rng.randint(-6, 4), rng.randint(-20, 14)
            lat = np.array([lat0 + i for i in range(nlat)], dtype=float)
            lon = np.array([lon0 + i for i in range(nlon)], dtype=float)
            vals = np.array([[rng.randint(-32, 32) / 4 for _ in range(nlon)] for _ in range(nlat)], dtype=float)
            for _ in range(rng.randint(0, 2)):
                vals[rng.randrange(nlat), rng.randrange(nlon)] = np.nan
            category = "zerosum" if k % 4 == 3 else "normal"
            # bounding box on or between grid lines, inclusive on both ends
            i0, i1 = sorted((rng.randrange(nlat), rng.randrange(nlat)))
            j0, j1 = sorted((rng.randrange(nlon), rng.randrange(nlon)))
            if category == "normal" and rng.random() < 0.25:
                i1, j1 = i0, j0               # exactly one grid cell in the box
            if category == "zerosum":
                # make the selected block sum to zero with non-zero entries
                j1 = max(j1, j0 + 1) if j0 + 1 < nlon else j1
                if j1 == j0:
                    j0 -= 1
                block = vals[i0:i1 + 1, j0:j1 + 1]
                block[:] = np.where(np.isnan(block), 1.0, block)
                block[block == 0] = 2.0
                flat = block.reshape(-1)
                flat[-1] = -(flat[:-1].sum())
                if flat[-1] == 0:          # then the others already cancel: shift two of them
                    flat[0] += 1.0
                    flat[-1] = -1.0
                vals[i0:i1 + 1, j0:j1 + 1] = flat.reshape(block.shape)
            pad_lo, pad_hi = rng.choice([0, 0.25]), rng.choice([0, 0.25])
            bbox = [float(lon[j0] - pad_lo), float(lat[i0] - pad_lo), float(lon[j1] + pad_hi), float(lat[i1] + pad_hi)]
            sel = vals[i0:i1 + 1, j0:j1 + 1]
            if np.all(np.isnan(sel)):
                continue
            if category == "normal" and np.nansum(sel) == 0:
                category = "zerosum"
            day = rng.choice([1, 15, 16])
            months = [(2001, m) for m in range(1, 13)]
            if category == "normal" and k % 10 == 9:
                # still 12 monthly steps, constant in time, but the file starts in another month
                category = "wrapyear"
                m0 = rng.randint(2, 12)
                months = [(2001, m) for m in range(m0, 13)] + [(2002, m) for m in range(1, m0)]
            time = pd.to_datetime([f"{y}-{m:02d}-{day:02d}" for y, m in months])
            data = np.broadcast_to(vals, (12,) + vals.shape).copy()
            ds = xr.Dataset({"t_an": (("time", "lat", "lon"), data)}, coords={"time": time, "lat": lat, "lon": lon})
            path = os.path.join(tmp, f"clim_{k}.nc")
            ds.to_netcdf(path, engine="scipy")
            start = pd.Timestamp("2020-01-01") + pd.Timedelta(days=rng.randint(0, 364))
            end = start + pd.Timedelta(days=1 if rng.random() < 0.25 else rng.randint(1, 120))   # one day: a 1 x k selection
            fx = rng.choice(SPAN_FX)
            vcfg = {"variable": "temp", "bbox": bbox, "start_time": start.strftime("%Y-%m-%d"),
                    "end_time": end.strftime("%Y-%m-%d"),
                    "tests": {"gross_range_test": dict(zip(("suspect_min", "suspect_max", "fail_min", "fail_max"), fx))}}
            want_stats = {"min": np.nanmin(sel), "max": np.nanmax(sel), "mean": np.nanmean(sel), "std": np.nanstd(sel)}
            want = [eval(f, {"__builtins__": {}}, dict(want_stats)) for f in fx]  # noqa: S307
            try:
                with warnings.catch_warnings():
                    warnings.simplefilter("ignore")
                    creator = cc.QcConfigCreator(cc.CreatorConfig(
                        {"datasets": [{"name": "clim", "file_path": path, "variables": {"temp": "t_an"}}]}))
                    out = creator.create_config(cc.QcVariableConfig(vcfg))
                sec = out["temp"]["qartod"]["gross_range_test"]
                got = [sec["suspect_span"][0], sec["suspect_span"][1], sec["fail_span"][0], sec["fail_span"][1]]
                ok = all(_close(g, w) for g, w in zip(got, want))
                exact = all(float(g) == float(w) for g, w in zip(got, want))
                got = [float(g) for g in got]
            except Exception as e:  # noqa: BLE001
                ok, exact, got = False, False, "R:" + type(e).__name__ + ": " + str(e)[:120]
            stats_out["cases"] += 1
            stats_out[category] += 1
            stats_out["exact"] += bool(exact)
            if not ok:
                failures.append({"kind": "create_config", "function": "QcConfigCreator.create_config",
                                 "category": category,
                                 "case": {"lat": lat.tolist(), "lon": lon.tolist(),
                                          "values": [[None if math.isnan(v) else v for v in row] for row in vals.tolist()],
                                          "config": vcfg, "time_day_of_month": day},
                                 "impl": got, "want": [float(w) for w in want],
                                 "want_stats": {k2: float(v) for k2, v in want_stats.items()},
                                 "clause": "spans differ from the limit expressions evaluated on the statistics of "
                                           "the cells inside the requested bounding box"})
            os.remove(path)
    finally:
        shutil.rmtree(tmp, ignore_errors=True)
    check_create_config.last = stats_out
    return failures


def check_creator_history(rng, n):
    """-> list of failure dicts.  One QcConfigCreator built from TWO climatology files on DIFFERENT grids (same shape,
    spacing 1 and 2 degrees) is asked, in a random order and with repeats, for variables of either file over bounding
    boxes that recur; every answer must equal the answer of a FRESH creator asked that one question (which
    check_create_config compares with the limit expressions): a generated config may not depend on what the creator
    was asked before."""
    import numpy as np
    import pandas as pd
    import xarray as xr

    from ioos_qc.config_creator import config_creator as cc

    tmp = tempfile.mkdtemp(prefix="fx_hist_", dir=str(core.BUILD) if core.BUILD.exists() else None)
    failures = []
    stats_out = {"histories": 0, "calls": 0}

    def spans(creator, vcfg):
        try:
            with warnings.catch_warnings():
                warnings.simplefilter("ignore")
                out = creator.create_config(cc.QcVariableConfig(vcfg))
            sec = out[vcfg["variable"]]["qartod"]["gross_range_test"]
            return [float(v) for v in (sec["suspect_span"][0], sec["suspect_span"][1], sec["fail_span"][0], sec["fail_span"][1])]
        except Exception as e:  # noqa: BLE001
            return "R:" + type(e).__name__

    try:
        for k in range(n):
            nlat, nlon = rng.randint(3, 5), rng.randint(3, 5)
            lat0, lon0 = rng.randint(-6, 4), rng.randint(-20, 14)
            time = pd.to_datetime([f"2001-{m:02d}-15" for m in range(1, 13)])
            dsets, grids = [], {}
            for name, var, ncvar, step in (("one", "temp", "t_an", 1), ("two", "salt", "s_an", 2)):
                lat = np.array([lat0 + step * i for i in range(nlat)], dtype=float)
                lon = np.array([lon0 + step * i for i in range(nlon)], dtype=float)
                vals = np.array([[rng.randint(-32, 32) / 4 for _ in range(nlon)] for _ in range(nlat)], dtype=float)
                data = np.broadcast_to(vals, (12,) + vals.shape).copy()
                path = os.path.join(tmp, f"hist_{k}_{name}.nc")
                xr.Dataset({ncvar: (("time", "lat", "lon"), data)},
                           coords={"time": time, "lat": lat, "lon": lon}).to_netcdf(path, engine="scipy")
                dsets.append({"name": name, "file_path": path, "variables": {var: ncvar}})
                grids[var] = {"lat": lat.tolist(), "lon": lon.tolist(), "values": vals.tolist()}
            # boxes that hold at least 2 x 2 cells of both grids (anchored at the common origin)
            boxes = [[float(lon0), float(lat0), float(lon0 + 2 * rng.randint(1, nlon - 2)), float(lat0 + 2 * rng.randint(1, nlat - 2))]
                     for _ in range(2)]
            fx = rng.choice(SPAN_FX)
            calls = []
            for _ in range(rng.randint(3, 6)):
                calls.append({"variable": rng.choice(["temp", "salt"]), "bbox": rng.choice(boxes),
                              "start_time": "2020-03-01", "end_time": "2020-04-01",
                              "tests": {"gross_range_test": dict(zip(("suspect_min", "suspect_max", "fail_min", "fail_max"), fx))}})
            with warnings.catch_warnings():
                warnings.simplefilter("ignore")
                shared = cc.QcConfigCreator(cc.CreatorConfig({"datasets": dsets}))
            stats_out["histories"] += 1
            for i, vcfg in enumerate(calls):
                got = spans(shared, vcfg)
                with warnings.catch_warnings():
                    warnings.simplefilter("ignore")
                    fresh = cc.QcConfigCreator(cc.CreatorConfig({"datasets": dsets}))
                want = spans(fresh, vcfg)
                stats_out["calls"] += 1
                same = got == want if isinstance(got, str) or isinstance(want, str) else all(_close(g, w) for g, w in zip(got, want))
                if not same:
                    failures.append({"kind": "create_config_history", "function": "QcConfigCreator.create_config",
                                     "case": {"grids": grids, "calls": calls[:i + 1]}, "impl": got, "want": want,
                                     "clause": f"call {i + 1} of a history on one creator (two files on different grids) differs "
                                               "from the same call on a fresh creator"})
                    break
            for d in dsets:
                os.remove(d["file_path"])
    finally:
        shutil.rmtree(tmp, ignore_errors=True)
    check_creator_history.last = stats_out
    return failures

