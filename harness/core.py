"""Core of the correspondence harness.

* Coq side: build (make under flock), assumption audit, lint, evaluation of generated
  case files with vm_compute (sharded, parallel).
* Python side: canonical outcomes, purity/history-aware execution of the implementation.
* Verdict/evidence helpers.
"""
import copy
import json  # noqa: F401
import fcntl
import hashlib
import json
import os
import random
import re
import subprocess
import sys
import time
from concurrent.futures import ThreadPoolExecutor
from fractions import Fraction
from pathlib import Path

VERIF = Path(__file__).resolve().parent.parent
REPO = Path(os.environ.get("VERIF_REPO", "/repo"))
COQ = VERIF / "coq"
THEORIES = COQ / "theories"
BUILD = VERIF / "build"
REPLAYS = VERIF / "replays"
EVIDENCE = VERIF / "evidence"
JOBS = int(os.environ.get("VERIF_JOBS", "12"))

FLAG_BY_CODE = {1: "GOOD", 2: "UNKNOWN", 3: "SUSPECT", 4: "FAIL", 9: "MISSING"}
CODE_BY_FLAG = {v: k for k, v in FLAG_BY_CODE.items()}
EXN_NAMES = ["ValueError", "TypeError", "IndexError", "AssertionError", "AttributeError", "KeyError"]

ALLOWED_AXIOMS = set()  # nothing: every property theorem must be closed under the global context


# ------------------------------------------------------------------ rendering to Coq

def q(v):
    """number -> exact Coq Q literal"""
    fr = Fraction(v)
    return f"({fr.numerator} # {fr.denominator})"


def z(v):
    v = int(v)
    return f"({v})%Z" if v < 0 else f"{v}%Z"


def obs(v):
    return "None" if v is None else f"Some {q(v)}"


def clist(items):
    return "[" + "; ".join(items) + "]"


def obs_list(xs):
    return clist([obs(x) for x in xs])


def opt(v, f):
    return "None" if v is None else f"(Some {f(v)})"


def coq_bool(b):
    return "true" if b else "false"


def coq_string(s):
    assert '"' not in s
    return f'"{s}"%string'


def outcome_coq(canon):
    """canonical outcome ('F:1,2' / 'R:ValueError') -> Coq outcome term, or None if the
    implementation produced something no model outcome can equal"""
    if canon.startswith("F:"):
        body = canon[2:]
        if body == "":
            return "(Flags [])"
        try:
            return "(Flags [" + "; ".join(FLAG_BY_CODE[int(c)] for c in body.split(",")) + "])"
        except (KeyError, ValueError):
            return None
    if canon.startswith("R:"):
        name = canon[2:]
        return f"(Raises {name if name in EXN_NAMES else 'OtherError'})"
    return None


def canon_flags(res, n_expected=None):
    """Canonicalise an implementation result (array of flags) -> 'F:...' with distinct symbols
    for anything that is not a plain flag array of the right shape."""
    import numpy as np

    arr = res
    if isinstance(arr, np.ma.MaskedArray):
        mask = np.ma.getmaskarray(arr)
        data = arr.data
    else:
        data = np.asarray(arr)
        mask = np.zeros(data.shape, dtype=bool)
    if data.ndim != 1:
        return f"X:ndim{data.ndim}"
    out = []
    for d, m in zip(data.tolist(), mask.tolist()):
        if m:
            out.append("M")
        elif isinstance(d, float) and d != d:
            out.append("nan")
        elif float(d) == int(d):
            out.append(str(int(d)))
        else:
            out.append(repr(d))
    return "F:" + ",".join(out)


def canon_exc(e):
    return "R:" + type(e).__name__


def fr(v):
    """JSON-able exact rendering"""
    if v is None:
        return None
    f = Fraction(v)
    return f"{f.numerator}/{f.denominator}" if f.denominator != 1 else str(f.numerator)


def to_float_array(xs):
    import numpy as np

    return np.array([np.nan if x is None else float(x) for x in xs], dtype=np.float64)


# ------------------------------------------------------------------ implementation execution

def snapshot(obj):
    """bit-level snapshot of an argument for the purity comparison"""
    import numpy as np
    import pandas as pd

    if isinstance(obj, np.ma.MaskedArray):
        return ("ma", str(obj.dtype), obj.shape, obj.data.tobytes(), np.ma.getmaskarray(obj).tobytes())
    if isinstance(obj, np.ndarray):
        return ("nd", str(obj.dtype), obj.shape, obj.tobytes())
    if isinstance(obj, pd.Series):
        return ("series", snapshot(obj.to_numpy()), snapshot(obj.index.to_numpy()))
    if isinstance(obj, pd.Index):
        return ("index", snapshot(obj.to_numpy()))
    if isinstance(obj, dict):
        return ("dict", tuple((k, snapshot(v)) for k, v in obj.items()))
    if isinstance(obj, (list, tuple)):
        return (type(obj).__name__, tuple(snapshot(v) for v in obj))
    if hasattr(obj, "_members"):  # ClimatologyConfig
        return ("clim", tuple(repr(m) for m in obj._members))
    return ("py", repr(obj))


# optional hook (C15): rewrite the keyword arguments (carrier types) just before the call
KW_TRANSFORM = None


def call_impl(fn, kwargs, expect_shape=None):
    """Call fn(**kwargs) on deep copies' originals; report canonical outcome and whether the
    caller's arguments were modified.  expect_shape: the (multi-dimensional) shape the result must have;
    it is then compared flattened in C order."""
    import warnings

    if KW_TRANSFORM is not None:
        kwargs = KW_TRANSFORM(dict(kwargs))
        if "__expect_shape__" in kwargs:          # the transform made the arrays multi-dimensional
            expect_shape = kwargs.pop("__expect_shape__")
    before = {k: snapshot(v) for k, v in kwargs.items()}
    try:
        with warnings.catch_warnings():
            warnings.simplefilter("ignore")
            res = fn(**kwargs)
        if expect_shape is not None:
            import numpy as np
            if tuple(np.shape(res)) != tuple(expect_shape):
                canon = f"X:shape{tuple(np.shape(res))}"
            else:
                canon = canon_flags(res.reshape(-1))
        else:
            canon = canon_flags(res)
    except Exception as e:  # noqa: BLE001
        canon = canon_exc(e)
    after = {k: snapshot(v) for k, v in kwargs.items()}
    mutated = [k for k in before if before[k] != after[k]]
    return canon, mutated


# ------------------------------------------------------------------ Coq build / audit

def sh(cmd, timeout=1800, cwd=None):
    p = subprocess.run(cmd, shell=True, cwd=cwd, capture_output=True, text=True, timeout=timeout)
    return p.returncode, p.stdout + p.stderr


def regenerate():
    """Re-run the translator; returns (status, message): 'ok' | 'partial' (Generated.v is fresh, but some
    definitions could not be read from the source and were left out: the Coq files that need them no longer
    compile) | 'fatal' (Generated.v could not be rewritten and may be stale)"""
    rc, out = sh(f"/venv/bin/python {VERIF}/tools/gen_consts.py {REPO} {THEORIES}/Generated.v")
    return {0: "ok", 3: "partial"}.get(rc, "fatal"), out.strip()


def coq_make(targets=None):
    """Incremental full .vo build under an exclusive lock. Returns (ok, log)."""
    BUILD.mkdir(exist_ok=True)
    with open(BUILD / ".lock", "w") as lk:
        fcntl.flock(lk, fcntl.LOCK_EX)
        files = sorted(p.name for p in THEORIES.glob("*.v"))
        proj = "-Q theories IoosQc\n" + "".join(f"theories/{f}\n" for f in files)
        pf = COQ / "_CoqProject"
        if not pf.exists() or pf.read_text() != proj or not (COQ / "Makefile").exists():
            pf.write_text(proj)
            rc, out = sh("coq_makefile -f _CoqProject -o Makefile", cwd=COQ)
            if rc != 0:
                return False, out
        tgt = " ".join(f"theories/{t}.vo" for t in targets) if targets else ""
        keep = "" if targets else "-k "          # a full build goes on past a file that no longer compiles
        rc, out = sh(f"timeout 1500 make {keep}-j{JOBS} {tgt}", cwd=COQ, timeout=1600)
        return rc == 0, out


def theorems_of(props_file):
    txt = (THEORIES / props_file).read_text()
    return re.findall(r"^\s*Theorem\s+([A-Za-z0-9_']+)", txt, flags=re.M)


def audit_assumptions(pid):
    """Compile a throw-away file that prints the assumptions of every theorem of Props_<pid>.
    Returns (theorems, {thm: [axioms]}, log)"""
    thms = theorems_of(f"Props_{pid}.v")
    BUILD.mkdir(exist_ok=True)
    f = BUILD / f"Audit_{pid}.v"
    body = [f"From IoosQc Require Import Props_{pid}."]
    for t in thms:
        body.append(f'Goal True. idtac "@@THM {t}". exact I. Qed.')
        body.append(f"Print Assumptions {t}.")
    f.write_text("\n".join(body) + "\n")
    rc, out = sh(f"timeout 300 coqc -Q {THEORIES} IoosQc {f.name}", cwd=BUILD)
    res = {}
    if rc != 0:
        return thms, None, out
    cur = None
    for line in out.splitlines():
        if line.startswith("@@THM "):
            cur = line.split()[1]
            res[cur] = []
        elif cur and line.strip() and not line.startswith("Closed under") and not line.startswith("Axioms:") \
                and "WARNING" not in line:
            m = re.match(r"^([A-Za-z0-9_.']+)\s*:", line)
            if m:
                res[cur].append(m.group(1))
    return thms, res, out


# axioms of the standard library's classical real numbers (Flocq is built on them): allowed ONLY for the support
# theorems of FloatExact.v, never for a property theorem
REALS_AXIOMS = {"ClassicalDedekindReals.sig_not_dec", "ClassicalDedekindReals.sig_forall_dec",
                "FunctionalExtensionality.functional_extensionality_dep", "Classical_Prop.classic"}


def audit_support(module, allowed):
    """Print Assumptions of every Theorem of a support file; returns (theorems, [(thm, axiom outside `allowed`)], log)"""
    thms = theorems_of(f"{module}.v")
    BUILD.mkdir(exist_ok=True)
    f = BUILD / f"Audit_{module}.v"
    body = [f"From IoosQc Require Import {module}."]
    for t in thms:
        body.append(f'Goal True. idtac "@@THM {t}". exact I. Qed.')
        body.append(f"Print Assumptions {t}.")
    f.write_text("\n".join(body) + "\n")
    rc, out = sh(f"timeout 300 coqc -Q {THEORIES} IoosQc {f.name}", cwd=BUILD)
    if rc != 0:
        return thms, None, out
    bad, cur = [], None
    for line in out.splitlines():
        if line.startswith("@@THM "):
            cur = line.split()[1]
        elif cur and not line.startswith("Axioms:") and not line.startswith("Closed under"):
            m = re.match(r"^([A-Za-z0-9_.']+)\s*:", line)
            if m and m.group(1) not in allowed:
                bad.append((cur, m.group(1)))
    return thms, bad, out


def coqchk(pid):
    """independent re-check of Props_<pid>.vo and everything it depends on; returns (ok, summary dict)"""
    rc, out = sh(f"timeout 1500 coqchk -silent -o -Q theories IoosQc IoosQc.Props_{pid}", cwd=COQ, timeout=1600)
    summ = {}
    for key, label in (("axioms", "* Axioms:"), ("type_in_type", "relying on type-in-type:"),
                       ("unsafe_fix", "relying on unsafe (co)fixpoints:"), ("positivity", "whose positivity is assumed:")):
        m = re.search(re.escape(label) + r"\s*(.*)", out)
        summ[key] = m.group(1).strip() if m else "?"
    ok = rc == 0 and all(v == "<none>" for v in summ.values())
    return ok, summ, out[-1500:]


FORBIDDEN = [
    r"\bAdmitted\b", r"\badmit\b", r"\bAxiom\b", r"\bAxioms\b", r"\bParameter\b", r"\bParameters\b",
    r"\bConjecture\b", r"Admit Obligations", r"Unset Guard", r"bypass_check", r"type-in-type",
    r"impredicative-set", r"Unset Positivity", r"Unset Universe", r"native_compute",
]


def strip_comments(txt):
    out, depth, i = [], 0, 0
    while i < len(txt):
        if txt.startswith("(*", i):
            depth += 1
            i += 2
        elif txt.startswith("*)", i) and depth:
            depth -= 1
            i += 2
        else:
            if depth == 0:
                out.append(txt[i])
            i += 1
    return "".join(out)


def lint():
    """Forbidden vernacular anywhere in the development (comments stripped); also top-level
    Variable/Hypothesis outside sections."""
    bad = []
    for p in sorted(THEORIES.glob("*.v")):
        txt = strip_comments(p.read_text())
        for pat in FORBIDDEN:
            for m in re.finditer(pat, txt):
                bad.append(f"{p.name}: forbidden `{m.group(0)}`")
        depth = 0
        for line in txt.splitlines():
            s = line.strip()
            if re.match(r"Section\s", s):
                depth += 1
            elif re.match(r"End\s", s) and depth:
                depth -= 1
            elif depth == 0 and re.match(r"(Variable|Variables|Hypothesis|Hypotheses|Context)\b", s):
                bad.append(f"{p.name}: `{s.split()[0]}` outside a section")
    proj = (COQ / "_CoqProject").read_text() if (COQ / "_CoqProject").exists() else ""
    for w in ("type-in-type", "impredicative-set"):
        if w in proj:
            bad.append(f"_CoqProject: {w}")
    return bad


# ------------------------------------------------------------------ case evaluation in Coq

def eval_cases(tag, imports, rtype, eqb, pairs, shard=300, extra_defs=""):
    """pairs: list of (coq_expr_got, coq_expr_expected) of Coq type `rtype`.
    Evaluates every `got` with vm_compute inside coqc and returns {index: printed_got} for the
    pairs that differ (empty dict = full agreement)."""
    BUILD.mkdir(exist_ok=True)
    work = BUILD / "cases"
    work.mkdir(exist_ok=True)
    files = []
    for si in range(0, len(pairs), shard):
        chunk = pairs[si:si + shard]
        name = "Cases_" + re.sub(r"[^A-Za-z0-9_]", "_", tag) + f"_{si // shard}"
        lines = [f"From IoosQc Require Import {' '.join(imports)}.", "From Coq Require Import String.", "Open Scope Q_scope.", extra_defs]
        lines.append(f"Definition cases : list ({rtype} * {rtype}) := [")
        lines.append(";\n".join(f" ({g}, {e})" for g, e in chunk))
        lines.append("].")
        lines.append(f"Eval vm_compute in (mismatches_from {si}%N {eqb} cases).")
        (work / f"{name}.v").write_text("\n".join(lines) + "\n")
        files.append(name)

    def run(name):
        rc, out = sh(f"timeout 900 coqc -Q {THEORIES} IoosQc {name}.v", cwd=work, timeout=1000)
        return name, rc, out

    mism = {}
    errors = []
    with ThreadPoolExecutor(max_workers=JOBS) as ex:
        for name, rc, out in ex.map(run, files):
            if rc != 0:
                errors.append((name, out[-2000:]))
                continue
            flat = " ".join(l for l in out.splitlines() if "WARNING" not in l)
            m = re.search(r"=\s*(\[.*\])\s*:\s*list", flat)
            if not m:
                errors.append((name, "cannot parse: " + flat[:500]))
                continue
            body = m.group(1)
            if body.strip() == "[]":
                continue
            found = 0
            for mm in re.finditer(r"\(\s*(\d+)(?:%N|%nat)?,\s*(.*?)\)(?=;\s*\(\s*\d+(?:%N|%nat)?,|\s*\]$)", body):
                mism[int(mm.group(1))] = re.sub(r"\s+", " ", mm.group(2))
                found += 1
            if found == 0:
                errors.append((name, "non-empty mismatch list could not be parsed: " + body[:500]))
    for name in files:
        for ext in (".v", ".vo", ".vok", ".vos", ".glob"):
            try:
                (work / f"{name}{ext}").unlink()
            except FileNotFoundError:
                pass
        try:
            (work / f".{name}.aux").unlink()
        except FileNotFoundError:
            pass
    return mism, errors


def coq_outcome_to_canon(printed):
    """'Flags [GOOD; FAIL]' / 'Raises ValueError' -> canonical string"""
    printed = printed.strip()
    if printed.startswith("Flags"):
        inner = printed[printed.index("[") + 1: printed.rindex("]")].strip()
        if not inner:
            return "F:"
        return "F:" + ",".join(str(CODE_BY_FLAG[t.strip()]) for t in inner.split(";"))
    if printed.startswith("Raises"):
        return "R:" + printed.split()[1]
    return "?:" + printed


# ------------------------------------------------------------------ verdict / evidence

def write_replay(pid, payload):
    REPLAYS.mkdir(exist_ok=True)
    blob = json.dumps(payload, sort_keys=True, default=str)
    h = hashlib.sha256(blob.encode()).hexdigest()[:12]
    path = REPLAYS / f"{pid}-{h}.json"
    path.write_text(json.dumps(payload, indent=1, default=str))
    return path


def load_known_findings():
    p = VERIF / "KNOWN_FINDINGS.json"
    if not p.exists():
        return []
    return json.loads(p.read_text())


def write_evidence(pid, tier, seed, coverage, assumptions, wall, violations):
    EVIDENCE.mkdir(exist_ok=True)
    ev = {
        "property_id": pid,
        "tier": tier,
        "seed": seed,
        "level": "proof",
        "coverage": coverage,
        "assumptions": assumptions,
        "wall_s": round(wall, 2),
        "violations": violations,
    }
    (EVIDENCE / f"{pid}.json").write_text(json.dumps(ev, indent=1, default=str))


class Rng(random.Random):
    pass
