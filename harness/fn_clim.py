"""Adapters and case generators for qartod.climatology_test (C08) and for the civil-calendar
fields (Calendar.v) the climatology model relies on.

Cases are JSON-able: values / depths on the dyadic grid k/64 as "p/q" strings (None = NaN), times as
whole epoch seconds, absolute tspans as epoch seconds (rendered to the call as ISO strings or
np.datetime64), periodic tspans as "p/q" numbers in the period's unit."""
import datetime as dt
from fractions import Fraction as F

import core
from adapters import Adapter
from core import clist, obs_list, q, z
from fns import G, frs, unfr

NS = 10 ** 9
EPOCH = dt.datetime(1970, 1, 1)

PERIODS = {"year": "PYear", "month": "PMonth", "week": "PWeek", "weekofyear": "PWeekOfYear",
           "dayofyear": "PDayOfYear", "dayofweek": "PDayOfWeek", "quarter": "PQuarter", "day": "PDay",
           "hour": "PHour"}


def epoch_s(y, mo, d, h=0, mi=0, s=0):
    return int((dt.datetime(y, mo, d, h, mi, s) - EPOCH).total_seconds())


def of_epoch(s):
    return EPOCH + dt.timedelta(seconds=s)


def pv(period, s):
    """value of the period field at epoch second s (python datetime; only used to aim the generator)"""
    d = of_epoch(s)
    return {"year": d.year, "month": d.month, "week": d.isocalendar()[1], "weekofyear": d.isocalendar()[1],
            "dayofyear": d.timetuple().tm_yday, "dayofweek": d.weekday(), "quarter": (d.month - 1) // 3 + 1,
            "day": d.day, "hour": d.hour}[period]


def np_times(secs):
    import numpy as np

    return np.array(secs, dtype="int64").astype("datetime64[s]").astype("datetime64[ns]")


TKINDS = ["ns", "s", "epoch_int", "epoch_float", "pydt", "series"]


def times_as(kind, secs):
    """the same instants in the input forms mapdates accepts (all map to the same datetime64[ns])"""
    import numpy as np
    import pandas as pd

    if kind == "s":
        return np.array(secs, dtype="int64").astype("datetime64[s]")
    if kind == "epoch_int":
        return np.array(secs, dtype="int64")
    if kind == "epoch_float":
        return np.array(secs, dtype="float64")
    if kind == "pydt":
        return [of_epoch(int(s)) for s in secs]
    if kind == "series":
        return pd.Series(np_times(secs))
    return np_times(secs)


# ------------------------------------------------------------------ climatology_test

def _num(v):
    v = F(v)
    return int(v) if v.denominator == 1 else float(v)


def _span(sp):
    return tuple(float(unfr(x)) for x in sp)


class Climatology(Adapter):
    name = "climatology_test"
    imports = ["Base", "Range", "Calendar", "Climatology"]

    def config(self, case):
        import numpy as np

        cfg = []
        for m in case["cfg"]:
            d = {}
            if m["period"] is None:
                a, b = m["tspan"]
                if m.get("tfmt") == "dt64":
                    d["tspan"] = (np.datetime64(int(a), "s"), np.datetime64(int(b), "s"))
                elif m.get("tfmt") == "mdy":        # month/day/year text: its alphabetical order is not the date order
                    d["tspan"] = tuple(of_epoch(int(x)).strftime("%m/%d/%Y %H:%M:%S") for x in (a, b))
                elif m.get("tfmt") == "datetime":
                    d["tspan"] = (of_epoch(int(a)), of_epoch(int(b)))
                elif m.get("tfmt") == "mixed":      # the two ends written in different forms (text and an object)
                    import pandas as pd
                    d["tspan"] = (of_epoch(int(a)).isoformat(), pd.Timestamp(of_epoch(int(b))))
                elif m.get("tfmt") == "mixed2":
                    d["tspan"] = (of_epoch(int(a)), np.datetime64(int(b), "s"))
                elif m.get("tfmt") == "timestamp":
                    import pandas as pd
                    d["tspan"] = [pd.Timestamp(of_epoch(int(a))), pd.Timestamp(of_epoch(int(b)))]
                else:
                    d["tspan"] = (of_epoch(int(a)).isoformat(), of_epoch(int(b)).isoformat())
            else:
                d["tspan"] = tuple(_num(unfr(x)) for x in m["tspan"])
                d["period"] = m["period"]
            d["vspan"] = _span(m["vspan"])
            if m["fspan"] is not None:
                d["fspan"] = _span(m["fspan"])
            if m["zspan"] is not None:
                d["zspan"] = _span(m["zspan"])
            cfg.append(d)
        return cfg

    def impl(self, case):
        from ioos_qc import qartod

        kw = {"config": self.config(case),
              "inp": core.to_float_array([unfr(x) for x in case["xs"]]),
              "tinp": times_as(case.get("tkind", "ns"), case["ts"]),
              "zinp": core.to_float_array([unfr(x) for x in case["zs"]])}
        return core.call_impl(qartod.climatology_test, kw)

    @staticmethod
    def _pair(sp):
        return f"({q(unfr(sp[0]))}, {q(unfr(sp[1]))})"

    def member(self, m):
        if m["period"] is None:
            a, b = m["tspan"]
            t = f"(TAbs {z(int(a) * NS)} {z(int(b) * NS)})"
        else:
            a, b = m["tspan"]
            t = f"(TPer {PERIODS[m['period']]} {q(unfr(a))} {q(unfr(b))})"
        fs = "None" if m["fspan"] is None else f"(Some {self._pair(m['fspan'])})"
        zs = "None" if m["zspan"] is None else f"(Some {self._pair(m['zspan'])})"
        return f"(mk_member {t} {fs} {self._pair(m['vspan'])} {zs})"

    def model(self, case, fn="clim_model"):
        ms = clist([self.member(m) for m in case["cfg"]])
        ts = clist([z(int(s) * NS) for s in case["ts"]])
        return (f"({fn} {ms} {obs_list([unfr(x) for x in case['xs']])} {ts} "
                f"{obs_list([unfr(x) for x in case['zs']])})")

    def spec(self, case):
        return self.model(case, "clim_spec")

    def in_domain(self, case):
        return len(case["xs"]) == len(case["ts"]) == len(case["zs"])


DATES = [(2019, 12, 25), (2019, 12, 29), (2019, 12, 30), (2019, 12, 31), (2020, 1, 1), (2020, 1, 2), (2020, 1, 3),
         (2020, 1, 5), (2020, 1, 6), (2020, 1, 31), (2020, 2, 1), (2020, 2, 28), (2020, 2, 29), (2020, 3, 1),
         (2020, 3, 31), (2020, 4, 1), (2020, 6, 30), (2020, 7, 1), (2020, 9, 30), (2020, 10, 1), (2020, 12, 27),
         (2020, 12, 28), (2020, 12, 29), (2020, 12, 30), (2020, 12, 31), (2021, 1, 1), (2021, 1, 2), (2021, 1, 3),
         (2021, 1, 4), (2021, 1, 5)]
TIMES_OF_DAY = [(0, 0, 0), (0, 0, 1), (6, 30, 0), (12, 0, 0), (23, 0, 0), (23, 59, 59)]
POOL = sorted(epoch_s(y, mo, d, h, mi, s) for (y, mo, d) in DATES for (h, mi, s) in TIMES_OF_DAY)

VSPANS = [(2, 8), (8, 2), (5, 5), (0, 10), (-3, 3)]
FSPANS = [None, None, (0, 10), (10, 0), (1, 9), (3, 7), (-5, 12), (5, 5)]
ZSPANS = [None, None, (0, 10), (10, 0), (5, 5), (20, 30)]
KINDS = [None, None, None] + list(PERIODS)


def gen_member(rng, kind="any", zspan="any", fspan="any"):
    if kind == "any":
        kind = rng.choice(KINDS)
    m = {"period": kind}
    if kind is None:
        a, b = rng.choice(POOL), rng.choice(POOL)
        if rng.random() < 0.15:
            b = a
        m["tspan"] = [a, b]
        m["tfmt"] = rng.choice(["iso", "dt64", "mdy", "datetime", "timestamp", "mixed", "mixed2"])
    else:
        vals = sorted({pv(kind, s) for s in POOL})
        a, b = F(rng.choice(vals)), F(rng.choice(vals))
        r = rng.random()
        if r < 0.15:
            b = a
        elif r < 0.3:  # ends between two integer values / outside the attainable values
            a, b = a + rng.choice([F(1, 2), F(-1, 2), 0]), b + rng.choice([F(1, 2), F(-1, 2), 1])
        m["tspan"] = frs([a, b])
    m["vspan"] = frs(rng.choice(VSPANS))
    fs = rng.choice(FSPANS) if fspan == "any" else fspan
    zs = rng.choice(ZSPANS) if zspan == "any" else zspan
    m["fspan"] = None if fs is None else frs(fs)
    m["zspan"] = None if zs is None else frs(zs)
    return m


def aimed_times(rng, members):
    """epoch seconds on and next to the time-span ends of the members"""
    out = []
    for m in members:
        if m["period"] is None:
            for e in m["tspan"]:
                out += [e - 1, e, e + 1]
        else:
            lo, hi = sorted(unfr(x) for x in m["tspan"])
            for s in POOL:
                v = pv(m["period"], s)
                if v in (lo, hi) or lo - 1 <= v < lo or hi < v <= hi + 1:
                    out.append(s)
    return out


def value_alphabet(members):
    b = set()
    for m in members:
        for sp in (m["vspan"], m["fspan"]):
            if sp is not None:
                b |= {unfr(x) for x in sp}
    b = b or {F(5)}
    return sorted({v + d for v in b for d in (-G, 0, G)} | {F(-100), F(100)})


def depth_alphabet(members):
    b = set()
    for m in members:
        if m["zspan"] is not None:
            b |= {unfr(x) for x in m["zspan"]}
    b = b or {F(5)}
    return sorted({v + d for v in b for d in (-G, 0, G)} | {F(1000)})


def make_case(rng, members, n, zmode, xmissing=0.2, sort_times=True):
    aim = aimed_times(rng, members)
    ts = []
    for _ in range(n):
        ts.append(rng.choice(aim) if aim and rng.random() < 0.6 else rng.choice(POOL))
    if sort_times:
        ts.sort()
    va, da = value_alphabet(members), depth_alphabet(members)
    xs = [None if rng.random() < xmissing else rng.choice(va) for _ in range(n)]
    if zmode == "none":
        zs = [None] * n
    elif zmode == "all":
        zs = [rng.choice(da) for _ in range(n)]
    else:
        zs = [None if rng.random() < 0.35 else rng.choice(da) for _ in range(n)]
    tkind = "ns" if rng.random() < 0.6 else rng.choice(TKINDS)
    return {"cfg": members, "xs": frs(xs), "ts": ts, "zs": frs(zs), "tkind": tkind}


def gen_clim(tier, rng):
    cases = []
    quick = tier == "quick"
    # no member at all / empty input
    for n in (0, 1, 3):
        for zmode in ("all", "mixed", "none"):
            cases.append(make_case(rng, [], n, zmode))
    # one member of every shape, every depth pattern, short series aimed at the span ends
    for kind in [None] + list(PERIODS):
        for zs in (None, (0, 10), (10, 0)):
            for fs in (None, (0, 10), (9, 1)):
                for zmode in ("all", "mixed", "none"):
                    for n in ((0, 1, 2, 5) if quick else (0, 1, 1, 2, 2, 3, 5, 8)):
                        for _ in range(2 if quick else 4):
                            m = gen_member(rng, kind, zs, fs)
                            cases.append(make_case(rng, [m], n, zmode, xmissing=0.25))
    # 2-3 overlapping members
    for _ in range(1400 if quick else 14000):
        k = rng.choice([2, 2, 3])
        ms = [gen_member(rng) for _ in range(k)]
        if rng.random() < 0.3:  # same time span, different depth / value spans: guaranteed overlap
            for m in ms[1:]:
                if m["period"] == ms[0]["period"]:
                    m["tspan"] = list(ms[0]["tspan"])
        n = rng.choice([1, 2, 3, 4, 6, 9])
        cases.append(make_case(rng, ms, n, rng.choice(["all", "mixed", "mixed", "none"]),
                               xmissing=rng.choice([0, 0.2, 0.5]), sort_times=rng.random() < 0.8))
    # a member listed AGAIN later ([A, B, A], [A, B, B', A]): re-listing puts it back on top of the members
    # between its two occurrences ("the last matching member decides")
    import copy
    for _ in range(250 if quick else 2500):
        a, b = gen_member(rng), gen_member(rng)
        if b["period"] == a["period"] and rng.random() < 0.7:
            b["tspan"] = list(a["tspan"])                  # overlapping in time
        ms = [a, b] + ([gen_member(rng)] if rng.random() < 0.3 else []) + [copy.deepcopy(a)]
        cases.append(make_case(rng, ms, rng.choice([2, 3, 4, 6, 9]), rng.choice(["all", "mixed", "none"]),
                               xmissing=rng.choice([0, 0.2])))
    # all values present and all depths present (the class on which the property holds)
    for _ in range(300 if quick else 3000):
        ms = [gen_member(rng) for _ in range(rng.choice([1, 2, 3]))]
        cases.append(make_case(rng, ms, rng.choice([2, 4, 7, 12]), "all", xmissing=0))
    return cases


# ------------------------------------------------------------------ calendar fields vs pandas

class CalendarFields(Adapter):
    """case: {"t": epoch seconds}; outcome: the eight calendar fields pandas reports"""
    name = "calendar_fields"
    imports = ["Base", "Calendar"]
    rtype = "list Z"
    eqb = "zlist_eqb"

    def impl(self, case):
        import numpy as np
        import pandas as pd
        from ioos_qc.utils import mapdates

        arr = np_times([case["t"]])
        before = arr.copy()
        ti = pd.DatetimeIndex(mapdates(arr).flatten())
        vals = [ti.year[0], ti.month[0], ti.day[0], ti.dayofyear[0], ti.dayofweek[0], ti.quarter[0],
                pd.Index(ti.isocalendar().week, dtype="int64")[0], ti.hour[0]]
        ts = pd.Timestamp(ti[0])
        assert vals == [ts.year, ts.month, ts.day, ts.dayofyear, ts.dayofweek, ts.quarter, ts.week, ts.hour]
        mutated = [] if (arr == before).all() else ["dates"]
        return "C:" + ",".join(str(int(v)) for v in vals), mutated

    def expected(self, canon):
        return "[" + "; ".join(z(int(v)) for v in canon[2:].split(",")) + "]"

    def printed_to_canon(self, printed):
        inner = printed.strip().strip("[]")
        return "C:" + ",".join(t.strip().replace("%Z", "").strip("()") for t in inner.split(";"))

    def model(self, case):
        return f"(cal_fields {z(int(case['t']) * NS)})"

    def nontrivial(self, case, canon):
        return True


def gen_calendar(tier, rng):
    y0, y1 = (2015, 2030) if tier == "quick" else (1968, 2040)
    d0 = epoch_s(y0, 1, 1) // 86400
    d1 = epoch_s(y1, 12, 31) // 86400
    cases = []
    for d in range(d0, d1 + 1):
        sec = rng.choice([0, 1, 3599, 3600, 43200, 86399, rng.randint(0, 86399)])
        cases.append({"t": d * 86400 + sec})
    return cases
