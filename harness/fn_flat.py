"""Adapter and case generator for qartod.flat_line_test (model: coq/theories/FlatLine.v).

case: {"xs": [..."p/q"|None], "ts": [int ns, ...], "st": "p/q", "ft": "p/q", "tol": "p/q",
       "dom": bool (= FlatLine.in_domain(case)), optional "fractional": True}
Values on the dyadic grid, times as datetime64[ns]; thresholds are passed as Python ints when
integral and as floats otherwise (the implementation applies int() to them)."""
import itertools
from fractions import Fraction as F

import core
from fns import big_shift_copies
from adapters import Adapter
from core import clist, obs_list, q, z
from fns import frs, np_epoch_ns, unfr

NS = 10 ** 9
T0 = 1_600_000_000  # epoch offset (s) of the generated time axes


def _num(v):
    f = unfr(v)
    return int(f) if f.denominator == 1 else float(f)


def step_of(case):
    """exact step (Fraction, seconds) of a regular time axis, 1 for fewer than two time stamps,
    None when the axis is not regular"""
    ts = case["ts"]
    if len(ts) < 2:
        return F(1)
    d = {b - a for a, b in zip(ts, ts[1:])}
    if len(d) != 1:
        return None
    return F(d.pop(), NS)


def property_expected(case):
    """Flags the PROPERTY (C11) demands, computed with exact Fractions: k = floor(threshold / D)
    with the true (possibly fractional) step D of a regular axis; canonical 'F:..' string, or None
    when the property does not speak about the case (irregular axis, D <= 0, negative durations)."""
    xs = [unfr(x) for x in case["xs"]]
    n = len(xs)
    st, ft, tol = unfr(case["st"]), unfr(case["ft"]), unfr(case["tol"])
    D = step_of(case)
    if D is None or D <= 0 or st < 0 or ft < 0 or len(case["ts"]) != n:
        return None
    if n < 3:
        return "F:" + ",".join("9" if x is None else "1" for x in xs)

    def hit(k, i):
        if i < k:
            return False
        w = [v for v in xs[i - k:i + 1] if v is not None]
        return bool(w) and max(w) - min(w) < tol

    ks, kf = (st / D).__floor__(), (ft / D).__floor__()
    out = []
    for i, x in enumerate(xs):
        if x is None:
            out.append(9)
        elif hit(kf, i):
            out.append(4)
        elif hit(ks, i):
            out.append(3)
        else:
            out.append(1)
    return "F:" + ",".join(str(f) for f in out)


class FlatLine(Adapter):
    name = "flat_line_test"
    imports = ["Base", "FlatLine"]

    def impl(self, case):
        from ioos_qc import qartod

        kw = {"inp": core.to_float_array([unfr(x) for x in case["xs"]]),
              "tinp": np_epoch_ns(case["ts"]),
              "suspect_threshold": _num(case["st"]),
              "fail_threshold": _num(case["ft"]),
              "tolerance": float(unfr(case["tol"]))}
        return core.call_impl(qartod.flat_line_test, kw)

    def _args(self, case):
        return (f"{q(unfr(case['st']))} {q(unfr(case['ft']))} {q(unfr(case['tol']))} "
                f"{obs_list([unfr(x) for x in case['xs']])}")

    def model(self, case):
        return f"(flat_model {self._args(case)} {clist([z(t) for t in case['ts']])})"

    def spec(self, case):
        """flat_spec with the exact step of the axis (meaningful on regular axes; in the domain of
        flat_refines when the step is positive).  Irregular axes: the
        first step, or 1, only so that the expression is well formed (such cases are out of domain)."""
        D = step_of(case)
        if D is None or D <= 0:
            d0 = F(case["ts"][1] - case["ts"][0], NS) if len(case["ts"]) >= 2 else F(1)
            D = d0 if d0 > 0 else F(1)
        return f"(flat_spec {q(D)} {self._args(case)})"

    def property_expected(self, case):
        return property_expected(case)

    def in_domain(self, case):
        """regular axis with any positive step (whole seconds, fractional, sub-second), as many time stamps as
        values, non-negative durations (any length)"""
        D = step_of(case)
        return (D is not None and D > 0 and len(case["ts"]) == len(case["xs"])
                and unfr(case["st"]) >= 0 and unfr(case["ft"]) >= 0)


def axis(n, D, t0=T0):
    """regular axis of n points, step D seconds, in ns"""
    return [(t0 + i * D) * NS for i in range(n)]


def thr_units(n, D):
    return [F(0), F(D, 2), F(D), F(3 * D, 2), F(2 * D), F(3 * D), F((n + 1) * D)]


def mk(xs, ts, st, ft, tol, dom=True):
    """dom: the generator's intention; checked against FlatLine.in_domain at the end of gen_flat"""
    return {"xs": frs(xs), "ts": [int(t) for t in ts], "st": core.fr(st), "ft": core.fr(ft),
            "tol": core.fr(tol), "dom": dom}


ALPHA = [None, F(0), F(1, 64), F(1), F(2)]
ALPHA4 = [None, F(0), F(1, 64), F(2)]
STEPS = [1, 2, 60, 900]
TOLS = [F(0), F(1, 64), F(1, 2), F(2)]


def plateau_series(rng, n, k):
    """noise with plateaus of length k-1, k, k+1 (k >= 1), occasional missing values"""
    xs = []
    while len(xs) < n:
        if rng.random() < 0.6:
            L = max(1, k + rng.choice([-1, 0, 0, 1]) + 1)  # L points = duration (L-1) steps
            v = rng.choice([F(0), F(1), F(2), F(5, 2)])
            for _ in range(L):
                r = rng.random()
                xs.append(None if r < 0.08 else (v + F(1, 64) if r < 0.16 else v))
        else:
            xs.append(rng.choice([F(-3), F(7), F(11, 4), None, F(4)]))
    return xs[:n]


def gen_flat(tier, rng):
    quick = tier == "quick"
    cases = []
    nmax = 6 if quick else 8

    def rand_params(n):
        D = rng.choice(STEPS)
        u = thr_units(n, D)
        return D, rng.choice(u), rng.choice(u), rng.choice(TOLS)

    # (a) every series up to length nmax over a 4-letter alphabet (range = tolerance reachable at
    #     1/64 and 2), one random parameter draw each
    for n in range(nmax + 1):
        for xs in itertools.product(ALPHA4, repeat=n):
            D, st, ft, tol = rand_params(n)
            cases.append(mk(list(xs), axis(n, D), st, ft, tol))
    # (b) every series up to length 4 (quick) / 6 over the full alphabet, a few draws each;
    #     random longer ones up to nmax
    small = 4 if quick else 6
    for n in range(small + 1):
        for xs in itertools.product(ALPHA, repeat=n):
            for _ in range(2 if (quick or n == 6) else 4):
                D, st, ft, tol = rand_params(n)
                cases.append(mk(list(xs), axis(n, D), st, ft, tol))
    for _ in range(600 if quick else 10000):
        n = rng.randint(small + 1, nmax)
        xs = [rng.choice(ALPHA) for _ in range(n)]
        D, st, ft, tol = rand_params(n)
        cases.append(mk(xs, axis(n, D), st, ft, tol))
    # (c) the full parameter grid on a few fixed series (plateau / step / noise / missing)
    fixed = [
        [F(1), F(1), F(1), F(2), F(2), F(2)],
        [F(0), F(1, 64), F(0), None, F(0), F(1, 64)],
        [None, None, F(1), None, None],
    ]
    if not quick:
        fixed += [[F(2), F(0), F(1), F(1), None, F(1)], [F(1), F(1), F(1)], [F(1)] * 5,
                  [F(0), F(1), F(2), F(1), F(0), F(0), F(0), F(0)], [None] * 4, [F(1, 64)] * 7]
    for xs in fixed:
        n = len(xs)
        for D in STEPS:
            for st in thr_units(n, D):
                for ft in thr_units(n, D):
                    for tol in TOLS:
                        cases.append(mk(xs, axis(n, D), st, ft, tol))
    # (d) random longer series with plateaus of length k-1, k, k+1
    for _ in range(500 if quick else 6000):
        n = rng.randint(7, 24)
        D = rng.choice(STEPS)
        ks, kf = rng.randint(1, 5), rng.randint(1, 7)
        xs = plateau_series(rng, n, rng.choice([ks, kf]))
        st = F(ks * D) + rng.choice([F(0), F(D, 2) if D > 1 else F(1, 2)])
        ft = F(kf * D) + rng.choice([F(0), F(D, 2) if D > 1 else F(1, 2)])
        cases.append(mk(xs, axis(n, D), st, ft, rng.choice(TOLS + [F(1, 32), F(3)])))
    # (e) irregular axes (the model follows the median of the steps), incl. fractional seconds
    for _ in range(300 if quick else 3000):
        n = rng.randint(3, 12)
        steps_ns = [rng.choice([1, 1, 2, 3, 5, 60]) * NS + rng.choice([0, 0, NS // 2, NS // 4, 1])
                    for _ in range(n - 1)]
        ts = [T0 * NS]
        for s in steps_ns:
            ts.append(ts[-1] + s)
        xs = plateau_series(rng, n, rng.randint(1, 3))
        st, ft = F(rng.randint(0, 12), 2), F(rng.randint(0, 16), 2)
        cases.append(mk(xs, ts, st, ft, rng.choice(TOLS), dom=False))
    # regular axes with a step that is not a whole number of seconds (1.5 s, 2.25 s)
    for step_ns in (3 * NS // 2, 9 * NS // 4):
        for n in (3, 4, 6):
            for st in (0, 1, 2, 3, 4, 5, 6):
                ts = [T0 * NS + i * step_ns for i in range(n)]
                cases.append(mk([F(1)] * n, ts, F(st), F(st + 2), F(1, 2), dom=False))
    # (f) outside the domain: negative thresholds, constant / sub-second / decreasing time axes
    for xs in ([F(1)] * 4, [F(1), None, F(1), F(2)]):
        n = len(xs)
        for st, ft in ((F(-1), F(2)), (F(2), F(-3)), (F(-1, 2), F(2)), (F(-5), F(-5))):
            cases.append(mk(xs, axis(n, 1), st, ft, F(1, 2), dom=False))
        cases.append(mk(xs, [T0 * NS] * n, F(1), F(2), F(1, 2), dom=False))
        cases.append(mk(xs, [T0 * NS + i * (NS // 2) for i in range(n)], F(1), F(2), F(1, 2), dom=False))
        cases.append(mk(xs, [T0 * NS + i * (NS // 2) for i in range(n)], F(0), F(0), F(1, 2), dom=False))
        cases.append(mk(xs, list(reversed(axis(n, 2))), F(2), F(4), F(1, 2), dom=False))
        cases.append(mk(xs, list(reversed(axis(n, 2))), F(0), F(1), F(1, 2), dom=False))
    ad = FlatLine()
    for c in cases:
        c["dom"] = ad.in_domain(c)
    big = big_shift_copies(cases, "xs", rng, 150 if tier == "quick" else 1500, lambda c: True)
    for i, d in enumerate(big):
        if i % 2 == 0:
            # a tolerance far below the spacing of the (large) values: only exactly repeated values are flat;
            # max - min < tol must not be rearranged into max < min + tol
            d["tol"] = core.fr(F(1, 2 ** 30))
    cases += big
    return cases


def gen_flat_fractional(tier, rng):
    """regular axes whose step is NOT a whole number of seconds (1.5 s, 2.5 s) or is below one second (0.25, 0.5,
    0.75 s): the property uses k = floor(threshold / D) with the true D (before the repair of F18 the
    implementation floored D to whole seconds first, and divided by zero below one second).  Steps and
    durations are dyadic, so that the float quotient threshold / D is exact.
    Compared with the model (in domain) and with property_expected(case)."""
    cases = []
    total = 100 if tier == "quick" else 1000
    while len(cases) < total:
        step_ns = rng.choice([3 * NS // 2, 5 * NS // 2, NS // 4, NS // 2, 3 * NS // 4])
        D = F(step_ns, NS)
        n = rng.randint(4, 8)
        ks, kf = rng.randint(1, 3), rng.randint(1, 5)
        xs = plateau_series(rng, n, rng.choice([ks, kf]))
        # durations: whole multiples of the true step, half-way points, and whole seconds nearby
        st = rng.choice([ks * D, ks * D + F(1, 2), F((ks * D).__floor__()), F(rng.randint(0, 8))])
        ft = rng.choice([kf * D, kf * D + F(1, 2), F((kf * D).__floor__()), F(rng.randint(0, 12))])
        ts = [T0 * NS + i * step_ns for i in range(n)]
        c = mk(xs, ts, st, ft, rng.choice([F(1, 64), F(1, 2), F(2)]), dom=True)
        c["fractional"] = True
        cases.append(c)
    # DECIMAL sub-second steps (10 Hz, 5 Hz, 0.4 s: not binary fractions) with durations that are whole multiples of the
    # step, kept where true division followed by truncation gives the exact count in float arithmetic (checked here):
    # there the property fixes k, and another float recipe (floor division: 1.0 // 0.1 = 9) is a deviation
    extra = 0
    while extra < (40 if tier == "quick" else 400):
        step_ns = rng.choice([NS // 10, NS // 5, 2 * NS // 5])
        D = F(step_ns, NS)
        ks, kf = rng.randint(1, 10), rng.randint(1, 12)
        st, ft = ks * D, kf * D
        if int(float(st) / (step_ns / 1e9)) != ks or int(float(ft) / (step_ns / 1e9)) != kf:
            continue
        n = rng.randint(max(ks, kf) + 1, max(ks, kf) + 4)
        xs = plateau_series(rng, n, rng.choice([ks, kf]))
        ts = [T0 * NS + i * step_ns for i in range(n)]
        c = mk(xs, ts, st, ft, rng.choice([F(1, 64), F(1, 2), F(2)]), dom=True)
        c["fractional"] = True
        cases.append(c)
        extra += 1
    return cases
