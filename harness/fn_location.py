"""Adapter and case generator for qartod.location_test (with utils.great_circle_distance).

The Coq model is parametric in the geodesic routine.  For the correspondence the adapter calls
geographiclib itself (`Geodesic.WGS84.Inverse(lat1, lon1, lat2, lon2)['s12']`, the very call of
utils.great_circle_distance) on every hop of the track whose four coordinates are present, converts
the float64 result exactly (`Fraction(float)`) and hands the finite table to `geod_of_table`.
A NaN distance (geographiclib returns NaN for |lat| > 90) is entered as NAN_SENTINEL, a number below
every range_max the generator uses: `NaN > range_max` is False in the implementation.

Coordinates live on a dyadic grid (k/64, a few k/2^20), so the box comparisons of the
implementation are exact; range_max is always an exactly representable float."""
import itertools
import math
from fractions import Fraction as F

import core
from adapters import Adapter
from core import clist, obs_list, opt, q
from fns import G, frs, unfr

NAN_SENTINEL = -F(2) ** 100
DEFAULT_BOX = (F(-180), F(-90), F(180), F(90))
TINY = F(1, 2 ** 20)          # degrees: a hop of about 0.1 m
REL = F(1, 2 ** 20)           # range_max is kept this far (relatively) from every hop distance


def gc(lat1, lon1, lat2, lon2):
    from geographiclib.geodesic import Geodesic

    return Geodesic.WGS84.Inverse(float(lat1), float(lon1), float(lat2), float(lon2))["s12"]


def hops(lon, lat):
    """[(key, float distance)] for every hop i-1 -> i with four present coordinates (Fractions)"""
    out = []
    for i in range(1, min(len(lon), len(lat))):
        k = (lat[i - 1], lon[i - 1], lat[i], lon[i])
        if any(v is None for v in k):
            continue
        out.append((k, gc(*k)))
    return out


def hop_table(lon, lat):
    seen, items = set(), []
    for k, d in hops(lon, lat):
        if k in seen:
            continue
        seen.add(k)
        v = NAN_SENTINEL if math.isnan(d) else F(d)
        items.append(f"(({q(k[0])}, {q(k[1])}, {q(k[2])}, {q(k[3])}), {q(v)})")
    return clist(items)


class Location(Adapter):
    """case: {"lon": [...], "lat": [...], "bbox": None (argument omitted) | [..any arity..],
              "rm": None | "p/q" (an exact float)}"""
    name = "location_test"
    imports = ["Base", "Generated", "Location"]

    def impl(self, case):
        from ioos_qc import qartod

        kw = {"lon": core.to_float_array([unfr(x) for x in case["lon"]]),
              "lat": core.to_float_array([unfr(x) for x in case["lat"]])}
        shape = None
        if "shape_lon" in case:            # multi-dimensional arrays (C order): same size, maybe different shapes
            kw["lon"] = kw["lon"].reshape(tuple(case["shape_lon"]))
            kw["lat"] = kw["lat"].reshape(tuple(case["shape_lat"]))
            shape = tuple(case["shape_lon"])
        if case["bbox"] is not None:
            kw["bbox"] = tuple(float(unfr(x)) for x in case["bbox"])
        if case["rm"] is not None:
            rm = unfr(case["rm"])
            assert F(float(rm)) == rm
            kw["range_max"] = float(rm)
        return core.call_impl(qartod.location_test, kw, expect_shape=shape)

    def _expr(self, fn, case):
        lon = [unfr(x) for x in case["lon"]]
        lat = [unfr(x) for x in case["lat"]]
        bbox = "location_default_bbox" if case["bbox"] is None else clist([q(unfr(x)) for x in case["bbox"]])
        e = (f"({fn} (geod_of_table {hop_table(lon, lat)}) {bbox} {opt(unfr(case['rm']), q)} "
             f"{obs_list(lon)} {obs_list(lat)})")
        if "shape_lon" in case:
            sh = lambda l: clist([f"{int(k)}%nat" for k in l])
            e = f"(shape_guard {sh(case['shape_lon'])} {sh(case['shape_lat'])} {e})"
        return e

    def model(self, case):
        return self._expr("location_model", case)

    def spec(self, case):
        return self._expr("location_spec", case)

    def in_domain(self, case):
        # location_refines holds on loc_dom: range_max absent, non-negative, or at most one position
        rm = unfr(case["rm"])
        return rm is None or rm >= 0 or len(case["lon"]) <= 1


# ------------------------------------------------------------------ generator

def _box_configs():
    """(bbox argument or None, effective box, interior positions (lon, lat) — asymmetric so that
    swapping lat/lon changes the hop distances)"""
    anti = F(179) + F(58, 64)
    return [
        (None, DEFAULT_BOX, [(F(21, 2), F(13, 4)), (anti, F(2)), (-anti, F(-3, 2)), (F(21, 2) + TINY, F(13, 4))]),
        ((F(-10), F(-5), F(20), F(15)), None, [(F(7), F(2)), (F(7) + TINY, F(2)), (F(-3, 2), F(11))]),
        ((F(3), F(4), F(3), F(4)), None, [(F(3), F(4))]),                       # degenerate: one point
        ((F(-200), F(-100), F(200), F(100)), None, [(F(150), F(40)), (F(-170), F(95)), (F(190), F(-60))]),
        ((F(5), F(5), F(-5), F(-5)), None, [(F(0), F(1))]),                     # empty box (min > max)
    ]


def _positions(box, inside):
    minx, miny, maxx, maxy = box
    mx, my = inside[0]
    full = list(inside)
    full += [(minx, my), (maxx, my), (mx, miny), (mx, maxy), (minx, miny), (maxx, maxy)]          # edges, corners
    full += [(minx - G, my), (maxx + G, my), (mx, miny - G), (mx, maxy + G), (maxx + 40, my - 1)]  # outside
    full += [(None, None), (None, my), (mx, None), (None, maxy + G), (minx - G, None)]            # missing patterns
    seen, out = set(), []
    for p in full:
        if p not in seen:
            seen.add(p)
            out.append(p)
    small = [inside[0], inside[-1], (maxx, my), (mx, miny - G), (None, None), (None, my), (mx, None)]
    s2 = []
    for p in small:
        if p not in s2:
            s2.append(p)
    return out, s2


def _range_values(lon, lat, rng, how_many):
    """range_max candidates for a track: None, tiny, huge, 0, negative, between hops, exactly a hop"""
    ds = sorted({d for _, d in hops(lon, lat) if not math.isnan(d)})
    cands = [None, F(1, 64), F(10) ** 8, F(0)]
    pos = [d for d in ds if d > 0]
    if pos:
        cands.append(F(pos[0] / 2))                      # below every positive hop
    for a, b in zip(ds, ds[1:]):
        mid = F((a + b) / 2)
        if all(abs(mid - F(d)) > REL * F(d) for d in ds):
            cands.append(mid)                            # strictly between two hop distances
    for d in ds:
        cands.append(F(d))                               # exactly a hop distance: not exceeded
        if d > 0:
            cands.append(F(math.nextafter(d, 0.0)))      # one ulp below: exceeded (explicitly near)
    cands.append(F(-1))
    uniq = []
    for c in cands:
        if c not in uniq:
            uniq.append(c)
    if how_many is None or len(uniq) <= how_many:
        return uniq
    keep = uniq[:2] + rng.sample(uniq[2:], how_many - 2)
    return keep


def gen_location(tier, rng):
    cases = []

    def add(track, bbox, rm):
        lon = [p[0] for p in track]
        lat = [p[1] for p in track]
        cases.append({"lon": frs(lon), "lat": frs(lat), "bbox": None if bbox is None else frs(bbox),
                      "rm": core.fr(rm)})

    L = 3 if tier == "quick" else 4
    for bbox, eff, inside in _box_configs():
        box = eff if eff is not None else bbox
        full, small = _positions(box, inside)
        tracks = [[]] + [[p] for p in full] + [list(t) for t in itertools.product(full, repeat=2)]
        for n in range(3, L + 1):
            tracks += [list(t) for t in itertools.product(small if n == 3 else small[:5], repeat=n)]
        for tr in tracks:
            lon = [p[0] for p in tr]
            lat = [p[1] for p in tr]
            for rm in _range_values(lon, lat, rng, 4 if len(tr) >= 2 else 3):
                add(tr, bbox, rm)
        for _ in range(60 if tier == "quick" else 600):
            n = rng.randint(4, 9)
            tr = [rng.choice(full) for _ in range(n)]
            for rm in _range_values([p[0] for p in tr], [p[1] for p in tr], rng, 3):
                add(tr, bbox, rm)
    # short hops far from (0, 0): a few tens of metres next to the antimeridian / at high latitude, against a range_max of
    # metres - the hop is tiny RELATIVE to the coordinates (below 1e-5 of them) but not in metres
    for _ in range(40 if tier == "quick" else 400):
        lon0, lat0 = F(rng.choice([179, -179, 120, 10])), F(rng.choice([60, -60, 75, 5]))
        n = rng.randint(2, 5)
        tr = [(lon0, lat0)]
        for _ in range(n - 1):
            tr.append((tr[-1][0] + F(rng.choice([1, -1, 2, 0]), 2 ** 11), tr[-1][1] + F(rng.choice([1, -1, 0]), 2 ** 12)))
        for rm in _range_values([p[0] for p in tr], [p[1] for p in tr], rng, 2) + [F(1), F(20)]:
            add(tr, None, rm)
    # the (lat, lon) argument order: a track on which swapping the roles changes the verdict
    tr = [(F(10), F(80)), (F(50), F(80))]          # 40 degrees of longitude at latitude 80: about 760 km
    d = hops([p[0] for p in tr], [p[1] for p in tr])[0][1]
    for rm in (F(d), F(math.nextafter(d, 0.0)), F(10) ** 6, F(4) * F(10) ** 6):
        add(tr, (F(0), F(0), F(90), F(90)), rm)
    # rejected inputs: shape mismatch, bbox arity (alone and together)
    p = (F(1), F(2))
    for nlon, nlat in [(0, 1), (1, 0), (2, 3), (3, 1), (2, 2)]:
        for bbox in [None, (F(0),) * 4, (), (F(0),), (F(0), F(1)), (F(0), F(0), F(5)), (F(0), F(0), F(5), F(5), F(6))]:
            for rm in (None, F(1)):
                cases.append({"lon": frs([p[0]] * nlon), "lat": frs([p[1]] * nlat),
                              "bbox": None if bbox is None else frs(bbox), "rm": core.fr(rm)})
    # multi-dimensional arrays: equal shapes are accepted (flags in lon's shape), different shapes are
    # rejected even when the element counts agree
    box = (F(-10), F(-5), F(20), F(15))
    tr6 = [(F(7), F(2)), (F(30), F(2)), (F(7) + TINY, F(2)), (None, None), (F(-3, 2), F(11)), (F(7), F(40))]
    for sl, sa in [((2, 3), (2, 3)), ((3, 2), (3, 2)), ((2, 3), (3, 2)), ((2, 3), (6,)), ((6,), (2, 3)),
                   ((1, 6), (6, 1)), ((6, 1), (6, 1)), ((1, 2, 3), (2, 3)), ((6,), (6,))]:
        for rm in (None, F(1), F(10) ** 8):
            cases.append({"lon": frs([p[0] for p in tr6]), "lat": frs([p[1] for p in tr6]), "bbox": frs(box),
                          "rm": core.fr(rm), "shape_lon": list(sl), "shape_lat": list(sa)})
    return cases
