"""Adapters for utils.cf_safe_name and PandasStore.save / compute_aggregate (C19).

CfSafeName: the real function on str inputs vs Store.cf_safe_name_model (strings rendered as
lists of code points).

StoreSave: a store is built either from CollectedResult objects written down directly or by
running a tiny real pipeline (PandasStream + Config) and handing the generator to
PandasStore; optional compute_aggregate calls; save(write_data, write_axes, include, exclude).
The CollectedResult objects the store actually holds are read back and rendered as the `cres`
records of the Coq model, so the model is evaluated on exactly the inputs `save` saw.  The
resulting frame is canonicalised as the ordered tuple of (column name, values) with NaN / NaT /
masked as "empty"."""
import itertools
import json
import warnings
from fractions import Fraction as F

import logging

import core
from adapters import Adapter
from core import clist, coq_bool, q

# ------------------------------------------------------------------ rendering


def cname(s):
    """str -> Coq `name` (list of code points)"""
    if not s:
        return "(@nil N)"
    return "[" + "; ".join(str(ord(c)) for c in s) + "]%N"


def parse_names(printed):
    """printed Coq list of N -> str"""
    import re

    return "".join(chr(int(x)) for x in re.findall(r"(\d+)%N", printed))


# ------------------------------------------------------------------ cf_safe_name

class CfSafeName(Adapter):
    name = "cf_safe_name"
    imports = ["Base", "Generated", "Store"]
    rtype = "name"
    eqb = "name_eqb"

    def impl(self, case):
        from ioos_qc.utils import cf_safe_name

        s = case["s"]
        before = str(s)
        try:
            res = "S:" + cf_safe_name(s)
        except Exception as e:  # noqa: BLE001
            res = core.canon_exc(e)
        return res, (["name"] if s != before else [])

    def model(self, case):
        return f"(cf_safe_name_model {cname(case['s'])})"

    def expected(self, canon):
        if canon.startswith("S:"):
            return cname(canon[2:])
        return None

    def printed_to_canon(self, printed):
        return "S:" + parse_names(printed)

    def nontrivial(self, case, canon):
        return True


ALPHA9 = ["a", "Z", "7", "_", ".", "-", " ", "é", "/"]
ALPHA_MORE = ALPHA9 + ["$", "0", "9", "z", "A", "b", ":", "@", "[", "]", "^", "`", "{", "ı", "١", "中",
                       "\U0001f600", "\n", "\t", "\\", "~", "ß", "İ", "K"]


def gen_cf(tier, rng):
    cases = []
    L = 3 if tier == "quick" else 4
    for n in range(L + 1):
        for t in itertools.product(ALPHA9, repeat=n):
            cases.append({"s": "".join(t)})
    # every single character around the class boundaries
    for cp in list(range(0, 130)) + [0xE9, 0x131, 0x661, 0x4E2D, 0x1F600, 0x10FFFF]:
        if chr(cp) != '"':
            cases.append({"s": chr(cp)})
            cases.append({"s": "x" + chr(cp)})
    for _ in range(400 if tier == "quick" else 4000):
        n = rng.randint(4, 14)
        cases.append({"s": "".join(rng.choice(ALPHA_MORE) for _ in range(n))})
    cases += [{"s": s} for s in ["temp.qartod.gross_range_test", "1temp", "_temp", "sea water/temp (C)",
                                 "a.b.qartod.spike_test", "a_b.qartod.spike_test", "v_1", "__", "9"]]
    return cases


# ------------------------------------------------------------------ PandasStore

def _functions():
    from ioos_qc import argo, axds, qartod

    return {"aggregate": qartod.aggregate, "gross_range_test": qartod.gross_range_test,
            "valid_range_test": axds.valid_range_test, "spike_test": qartod.spike_test,
            "flat_line_test": qartod.flat_line_test, "pressure_increasing_test": argo.pressure_increasing_test}


logging.getLogger("ioos_qc").setLevel(logging.CRITICAL)

FN_IDS = {"aggregate": 0, "gross_range_test": 1, "valid_range_test": 2, "spike_test": 3, "flat_line_test": 4,
          "pressure_increasing_test": 5}
FN_PKG = {"gross_range_test": "qartod", "valid_range_test": "axds", "spike_test": "qartod",
          "flat_line_test": "qartod", "pressure_increasing_test": "argo", "aggregate": "qartod"}

T0 = 1577836800  # 2020-01-01T00:00:00 in seconds


def _fn_id(fn):
    for k, f in _functions().items():
        if f is fn:
            return FN_IDS[k]
    raise KeyError(fn)


def _num(v):
    """one frame / array entry -> None (empty) or an exact 'p/q' string"""
    import numpy as np
    import pandas as pd

    if v is None or v is np.ma.masked or v is pd.NaT:
        return None
    if isinstance(v, (np.datetime64, pd.Timestamp)):
        if pd.isna(v):
            return None
        ns = int(pd.Timestamp(v).value)
        return core.fr(F(ns, 10 ** 9))
    if isinstance(v, float) or isinstance(v, np.floating):
        if v != v:
            return None
        return core.fr(F(float(v)))
    if isinstance(v, (int, np.integer, bool, np.bool_)):
        return core.fr(F(int(v)))
    try:
        if pd.isna(v):
            return None
    except (TypeError, ValueError):
        pass
    import datetime

    if isinstance(v, datetime.datetime):
        return _num(pd.Timestamp(v))
    raise TypeError(f"cannot canonicalise {v!r} ({type(v)})")


def _arr(a):
    """numpy / masked array -> list of None | 'p/q'"""
    import numpy as np

    if isinstance(a, np.ma.MaskedArray):
        mask = np.ma.getmaskarray(a)
        return [None if m else _num(x) for x, m in zip(a.data, mask)]
    return [_num(x) for x in np.asarray(a)]


def _frame_canon(df):
    cols = []
    for j, c in enumerate(df.columns):
        cols.append([c, [_num(v) for v in df.iloc[:, j].tolist()]])
    if len({len(v) for _, v in cols} | {len(df)}) > 1:
        return "X:ragged"
    return "F:" + json.dumps(cols)


def _mk_array(vals, dtype):
    """list with None -> masked (or plain, when nothing is missing) array"""
    import numpy as np

    if dtype == "time":
        data = np.array([T0 if v is None else T0 + int(v) for v in vals], dtype="int64").astype("datetime64[s]") \
            .astype("datetime64[ns]")
    elif dtype == "flag":
        data = np.array([0 if v is None else int(v) for v in vals], dtype="uint8")
    else:
        data = np.array([0.0 if v is None else float(F(v)) for v in vals], dtype="float64")
    if any(v is None for v in vals):
        return np.ma.array(data, mask=[v is None for v in vals])
    return data


def _build_store(case):
    """-> PandasStore"""
    import numpy as np
    import pandas as pd
    from ioos_qc.config import Config
    from ioos_qc.results import CollectedResult
    from ioos_qc.stores import PandasStore
    from ioos_qc.streams import PandasStream

    fns = _functions()
    axes = case.get("axes")
    if case["mode"] == "direct":
        crs = []
        for c in case["crs"]:
            kw = {"stream_id": c["stream"], "package": c["pkg"], "test": c["test"], "function": fns[c["fn"]],
                  "results": _mk_array(c["results"], "flag"), "data": _mk_array(c["data"], "float")}
            for k, dt in (("tinp", "time"), ("zinp", "float"), ("lat", "float"), ("lon", "float")):
                if c.get(k) is not None:
                    kw[k] = _mk_array(c[k], dt)
            crs.append(CollectedResult(**kw))
        st = PandasStore([], axes)
        assert st.collected_results == []
        st.collected_results = crs
        st._stream_ids = [cr.stream_id for cr in crs]
        return st
    # a real run
    n = case["n"]
    cols = {}
    if case["has_time"]:
        cols["time"] = pd.date_range("2020-01-01", periods=n, freq="1s")
    if case["has_z"]:
        cols["z"] = np.arange(n, dtype="float64") * 0.5
    if case["has_pos"]:
        # (a platform may report only one of the two: pos_only = "lat" / "lon")
        if case.get("pos_only") != "lon":
            # (a fixed platform's latitude may be a whole number held in an integer column)
            cols["lat"] = np.full(n, 10, dtype="int64") if case.get("lat_int") else np.full(n, 10.25)
        if case.get("pos_only") != "lat":
            cols["lon"] = np.arange(n, dtype="float64") - 3.25
    for sid, vals in case["streams"].items():
        cols[sid] = core.to_float_array([None if v is None else F(v) for v in vals])
    df = pd.DataFrame(cols)
    contexts = []
    for ctx in case["contexts"]:
        streams = {}
        for sid, tests in ctx["streams"].items():
            d = {}
            for t in tests:
                if t == "gross_range_test":
                    d.setdefault("qartod", {})[t] = {"fail_span": [0, 10], "suspect_span": [1, 5]}
                elif t == "valid_range_test":
                    d.setdefault("axds", {})[t] = {"valid_span": [0, 4]}
                elif t == "spike_test":
                    d.setdefault("qartod", {})[t] = {"suspect_threshold": 1, "fail_threshold": 3}
                elif t == "flat_line_test":
                    d.setdefault("qartod", {})[t] = {"suspect_threshold": 2, "fail_threshold": 3, "tolerance": 0}
            streams[sid] = d
        c = {"streams": streams}
        if ctx.get("window"):
            w = {}
            if ctx["window"][0] is not None:
                w["starting"] = (pd.Timestamp("2020-01-01") + pd.Timedelta(seconds=ctx["window"][0])).isoformat()
            if ctx["window"][1] is not None:
                w["ending"] = (pd.Timestamp("2020-01-01") + pd.Timedelta(seconds=ctx["window"][1])).isoformat()
            c["window"] = w
        contexts.append(c)
    cfg = Config({"contexts": contexts})
    if case.get("frontend") == "numpy_masked":
        # the same table through NumpyStream, the data given as MASKED arrays (a missing value is a masked element
        # with some number under the mask): in the saved frame a masked element is an empty cell of the data column
        from ioos_qc.streams import NumpyStream
        inp = {sid: np.ma.array(np.array([7.0 if v is None else float(F(v)) for v in vals]), mask=[v is None for v in vals])
               for sid, vals in case["streams"].items()}
        kw = {}
        if case["has_time"]:
            kw["time"] = cols["time"].to_numpy()
        if case["has_z"]:
            kw["z"] = cols["z"]
        if case["has_pos"]:
            for ax in ("lat", "lon"):
                if ax in cols:
                    kw[ax] = cols[ax]
        return PandasStore(NumpyStream(inp=inp, **kw).run(cfg), axes)
    return PandasStore(PandasStream(df).run(cfg), axes)


def _filter_py(items):
    if items is None:
        return None
    fns = _functions()
    return [fns[x[1]] if x[0] == "fn" else x[1] for x in items]


def _filter_coq(items):
    if items is None:
        return "None"
    return "(Some " + clist([f"FFn {FN_IDS[x[1]]}" if x[0] == "fn" else f"FStr {cname(x[1])}" for x in items]) + ")"


def _obs_list(vals):
    return clist(["None" if v is None else f"Some {q(F(v))}" for v in vals])


def _cres_coq(cr):
    """CollectedResult (as held by the store) -> Coq cres record"""
    def cells(a):
        return clist(["None" if v is None else f"Some {core.z(int(F(v)))}" for v in _arr(a)])

    def axis(a):
        return "None" if a is None else f"(Some {_obs_list(_arr(a))})"

    stream = "None" if cr.stream_id is None else f"(Some {cname(cr.stream_id)})"
    data = "[]" if cr.data is None else _obs_list(_arr(cr.data))
    return ("{| stream := %s; pkg := %s; test := %s; fn_id := %d%%nat; results := %s; data := %s; "
            "tinp := %s; zinp := %s; lat := %s; lon := %s |}") % (
        stream, cname(cr.package), cname(cr.test), _fn_id(cr.function), cells(cr.results), data,
        axis(cr.tinp), axis(cr.zinp), axis(cr.lat), axis(cr.lon))


def _pipeline_check(case, df):
    """C19 at the level of a whole run (collect_results is not modelled in Coq): one row per input
    row, and a result column is empty exactly on the rows no context evaluated.  Returns a
    canonical 'X:...' symbol when violated (reported by the runner as a shape failure)."""
    import pandas as pd
    from ioos_qc.utils import cf_safe_name

    n = case["n"]
    if len(df.columns) and len(df) != n:
        return f"X:rows:{len(df)}!={n}"
    pairs = {}
    for ctx in case["contexts"]:
        w = ctx.get("window") if case["has_time"] else None
        rows = {i for i in range(n) if not w or ((w[0] in (None, 0) or i >= w[0]) and (w[1] in (None, 0) or i < w[1]))}
        for sid, tests in ctx["streams"].items():
            for t in tests:
                if t == "flat_line_test" and not case["has_time"]:
                    continue  # not run: needs tinp
                pairs.setdefault((sid, t), set()).update(rows)
    names = [cf_safe_name(f"{sid}.{FN_PKG[t]}.{t}") for sid, t in pairs]
    taken = set(case["streams"]) | {"time", "z", "lat", "lon"}
    if len(set(names)) != len(names) or set(names) & taken:
        return None
    for (sid, t), rows in pairs.items():
        col = cf_safe_name(f"{sid}.{FN_PKG[t]}.{t}")
        if col in df:
            empty = {i for i, v in enumerate(df[col].tolist()) if pd.isna(v)}
            if empty != set(range(n)) - rows:
                return f"X:evaluated-rows:{col}:{sorted(empty)}"
    # the depth / position columns (default names) hold the table's own values on every row the FIRST collected result
    # evaluated (the axes are taken from the first result that has them), and nothing else anywhere
    if case.get("write_axes") in (None, True) and not case.get("axes") and pairs:
        first_rows = next(iter(pairs.values()))
        src = {}
        if case["has_z"]:
            src["z"] = [0.5 * i for i in range(n)]
        if case["has_pos"] and case.get("pos_only") != "lon":
            src["lat"] = [10.0 if case.get("lat_int") else 10.25] * n
        if case["has_pos"] and case.get("pos_only") != "lat":
            src["lon"] = [float(i) - 3.25 for i in range(n)]
        for ax, vals in src.items():
            if ax in df and ax not in names and ax not in case["streams"]:
                col = df[ax].tolist()
                for i in range(n):
                    if pd.isna(col[i]):
                        if i in first_rows:
                            return f"X:axis-column:{ax}:row{i}:empty"
                    elif float(col[i]) != vals[i]:
                        return f"X:axis-column:{ax}:row{i}:{col[i]}"
    # a data column holds the values of ITS OWN stream (or nothing) on every row
    for sid, vals in case["streams"].items():
        if sid in df and sid not in names:
            for i, v in enumerate(df[sid].tolist()):
                if pd.isna(v):
                    continue
                if vals[i] is None or float(F(vals[i])) != float(v):
                    return f"X:data-column:{sid}:row{i}:{v}"
    return None


class StoreSave(Adapter):
    name = "PandasStore_save"
    imports = ["Base", "Generated", "Compare", "Store"]
    rtype = "ores"
    eqb = "ores_eqb"

    def _kwargs(self, case):
        kw = {}
        if case["write_data"] is not None:
            kw["write_data"] = case["write_data"]
        if case["write_axes"] is not None:
            kw["write_axes"] = case["write_axes"]
        if case["include"] != "absent":
            kw["include"] = _filter_py(case["include"])
        if case["exclude"] != "absent":
            kw["exclude"] = _filter_py(case["exclude"])
        return kw

    def impl(self, case):
        with warnings.catch_warnings():
            warnings.simplefilter("ignore")
            st = _build_store(case)
            before = [(core.snapshot(cr.results), core.snapshot(cr.data), core.snapshot(cr.tinp))
                      for cr in st.collected_results]
            nbefore = len(st.collected_results)
            try:
                for nm in case["aggs"]:
                    if nm is None:
                        st.compute_aggregate()
                    else:
                        st.compute_aggregate(name=nm)
                if case.get("presave"):
                    # the store object was already saved once, with other options: each save stands on its own
                    st.save(**{"default": {}, "data": {"write_data": True}, "noaxes": {"write_axes": False}}[case["presave"]])
                df = st.save(**self._kwargs(case))
                canon = _frame_canon(df)
                if case["mode"] == "pipe":
                    canon = _pipeline_check(case, df) or canon
            except Exception as e:  # noqa: BLE001
                canon = core.canon_exc(e)
            after = [(core.snapshot(cr.results), core.snapshot(cr.data), core.snapshot(cr.tinp))
                     for cr in st.collected_results[:nbefore]]
        return canon, (["collected_results"] if before != after else [])

    def model(self, case):
        with warnings.catch_warnings():
            warnings.simplefilter("ignore")
            st = _build_store(case)
        crs = clist([_cres_coq(cr) for cr in st.collected_results])
        ax = case.get("axes")
        axc = "default_axes" if not ax else (
            "{| ax_t := %s; ax_z := %s; ax_y := %s; ax_x := %s |}" % tuple(cname(ax[k]) for k in "tzyx"))
        aggs = clist([("rollup_name" if nm is None else cname(nm)) for nm in case["aggs"]]) if case["aggs"] \
            else "(@nil name)"
        wd = "false" if case["write_data"] is None else coq_bool(case["write_data"])
        wa = "true" if case["write_axes"] is None else coq_bool(case["write_axes"])
        inc = "None" if case["include"] == "absent" else _filter_coq(case["include"])
        exc = "None" if case["exclude"] == "absent" else _filter_coq(case["exclude"])
        return f"(observe (store_model {axc} {aggs} {wd} {wa} {inc} {exc} {crs}))"

    def spec(self, case):
        """the frame the property describes: same walk with the property's filter rule, columns
        identified by origin instead of by name (Store.store_intended)"""
        return self.model(case).replace("(observe (store_model ", "(observe (store_intended ")

    def expected(self, canon):
        if canon.startswith("R:"):
            nm = canon[2:]
            return f"(ORaises {nm if nm in core.EXN_NAMES else 'OtherError'})"
        if canon.startswith("F:"):
            cols = json.loads(canon[2:])
            if not cols:
                return "(OFrame [])"
            return "(OFrame " + clist([f"({cname(c)}, {_obs_list(v)})" for c, v in cols]) + ")"
        return None

    def printed_to_canon(self, printed):
        return "?:" + printed[:600]

    def nontrivial(self, case, canon):
        return True

    def in_domain(self, case):
        """True exactly when the hypotheses of StoreProofs.save_meets_property / store_meets_property
        hold for the case: `wf` (all collected arrays of one length) and `names_ok` (no two columns
        of different origin compete for a name)"""
        info = case_info(case)
        return info["wf"] and info["names_ok"]


def _matches(c, items):
    return any((x[0] == "fn" and FN_IDS[x[1]] == c["fn"]) or (x[0] != "fn" and x[1] in (c["stream"], c["test"]))
               for x in items)


def case_info(case):
    """What the Coq hypotheses say about a case, computed from the CollectedResult objects the
    store holds (plus one entry per compute_aggregate call):
    wf, names_ok, collision (two kept results with the same column name), axis_clash (a stream id
    or result column named like an axis column), data_clash (a stream id equal to a result
    column name), kept result names."""
    from ioos_qc.utils import cf_safe_name

    with warnings.catch_warnings():
        warnings.simplefilter("ignore")
        st = _build_store(case)

    def alen(a):
        return None if a is None else len(a)

    crs = []
    for cr in st.collected_results:
        crs.append({"stream": cr.stream_id, "pkg": cr.package, "test": cr.test, "fn": _fn_id(cr.function),
                    "n": alen(cr.results), "data": alen(cr.data),
                    "axes": [alen(x) for x in (cr.tinp, cr.zinp, cr.lon, cr.lat)]})
    n = crs[0]["n"] if crs else 0
    wf = all(c["n"] == n and (not c["stream"] or c["data"] == n) and all(a in (None, 0, n) for a in c["axes"])
             for c in crs)
    if case["aggs"] and crs and wf:
        crs += [{"stream": "", "pkg": "qartod", "test": nm or "rollup", "fn": 0} for nm in case["aggs"]]
    inc = None if case["include"] in ("absent", None) else case["include"]
    exc = None if case["exclude"] in ("absent", None) else case["exclude"]
    kept = [c for c in crs if (inc is None or _matches(c, inc)) and not (exc is not None and _matches(c, exc))]
    rn = [cf_safe_name("".join(f"{p}." for p in (c["stream"], c["pkg"]) if p) + (c["test"] or "")) for c in kept]
    ax = case.get("axes") or {"t": "time", "z": "z", "y": "lat", "x": "lon"}
    an = [ax[k] for k in "tzxy"] if case["write_axes"] in (None, True) else []
    sn = {c["stream"] for c in kept if c["stream"]} if case["write_data"] else set()
    collision = len(set(rn)) != len(rn)
    axis_clash = len(set(an)) != len(an) or bool(set(an) & sn) or bool(set(an) & set(rn))
    data_clash = bool(sn & set(rn))
    return {"wf": wf, "names_ok": not (collision or axis_clash or data_clash), "collision": collision,
            "axis_clash": axis_clash, "data_clash": data_clash, "result_names": rn}


def collision_case(case):
    """two results that pass the filters of the case map to the same (CF-safe) column name"""
    return case_info(case)["collision"]


# ids the streams are named with: characters illegal in CF names, collisions after cleaning,
# leading digit / underscore, non-ASCII, names equal to an axis column
STREAM_IDS = ["a.b", "a_b", "a-b", "a b", "temp", "7up", "_x", "été", "a/b", "a$b", ".a", "z", "time", "t1",
              "a.b.qartod.gross_range_test", "a_b_qartod_gross_range_test", "x:y", "A.b"]
TESTS = ["gross_range_test", "valid_range_test", "spike_test", "flat_line_test"]
DATA_ALPHA = [None, "0", "1/2", "2", "9/2", "7", "12", "-1"]
FLAG_ALPHA = [1, 2, 3, 4, 9, None, None]


def _filters(rng, sids, tests, allow_none=True):
    """a random include/exclude value: 'absent' | None | list of items"""
    r = rng.random()
    if r < 0.3:
        return "absent"
    if r < 0.4 and allow_none:
        return None
    pool = [["s", s] for s in sids] + [["t", t] for t in tests] + [["fn", t] for t in tests] + \
           [["s", "nosuch"], ["t", "rollup"], ["fn", "aggregate"], ["s", ""], ["t", "range"], ["s", "a"]]
    k = rng.choice([0, 1, 1, 1, 2, 2, 3])
    return [rng.choice(pool) for _ in range(k)]


def _options(rng, sids, tests, case):
    case["write_data"] = rng.choice([None, True, False, True])
    case["write_axes"] = rng.choice([None, True, False])
    case["include"] = _filters(rng, sids, tests)
    case["exclude"] = _filters(rng, sids, tests)
    case["aggs"] = rng.choice([[], [], [None], [None], ["qc_rollup"], [None, None], [None, "all"]])
    return case


def _direct_case(rng, big=False):
    n = rng.choice([0, 1, 2, 3, 3, 4, 6]) if not big else rng.randint(5, 12)
    k = rng.choice([0, 1, 1, 2, 2, 3, 4])
    sids = [rng.choice(STREAM_IDS + [None, ""]) for _ in range(rng.randint(1, 3))]
    crs = []
    first = True
    for _ in range(k):
        sid = rng.choice(sids)
        t = rng.choice(TESTS)
        c = {"stream": sid, "pkg": rng.choice([FN_PKG[t]] * 8 + ["", "my.pkg"]), "test": rng.choice([t] * 9 + [""]),
             "fn": t, "results": [rng.choice(FLAG_ALPHA) for _ in range(n)],
             "data": [rng.choice(DATA_ALPHA) for _ in range(n)]}
        # axes: usually on every result, sometimes missing (None) or empty on some
        for kx in ("tinp", "zinp", "lat", "lon"):
            r = rng.random()
            if r < 0.65:
                c[kx] = [rng.choice([None, i, i]) if kx == "tinp" else rng.choice([None, str(i), "1/2"]) for i in range(n)]
                if first and rng.random() < 0.7:
                    c[kx] = [i if kx == "tinp" else str(i) for i in range(n)]
            elif r < 0.8:
                c[kx] = []
            else:
                c[kx] = None
        first = False
        crs.append(c)
    case = {"mode": "direct", "crs": crs}
    if rng.random() < 0.15:
        case["axes"] = {"t": rng.choice(["time", "t", "a_b", "a.b"]), "z": rng.choice(["z", "depth", "t"]),
                        "y": rng.choice(["lat", "y"]), "x": rng.choice(["lon", "x", "a_b_qartod_gross_range_test"])}
    tests = sorted({c["test"] for c in crs if c["test"]}) or ["gross_range_test"]
    return _options(rng, [s for s in sids if s], tests, case)


def _ragged_case(rng):
    """arrays of unequal length: outside the property's domain, kept to pin the ValueError"""
    case = _direct_case(rng)
    if case["crs"]:
        c = rng.choice(case["crs"])
        k = rng.choice(["results", "data", "tinp", "zinp"])
        if c.get(k) is not None:
            c[k] = list(c[k]) + [1]
    case["domain"] = False
    return case


def _pipe_case(rng):
    n = rng.randint(3, 7)
    sids = rng.sample([s for s in STREAM_IDS if s != "time"], rng.randint(1, 3))
    streams = {s: [rng.choice(DATA_ALPHA) for _ in range(n)] for s in sids}
    contexts = []
    for _ in range(rng.choice([1, 1, 2])):
        ctx_streams = {}
        for s in rng.sample(sids, rng.randint(1, len(sids))):
            ctx_streams[s] = rng.sample(TESTS, rng.randint(1, 2))
        w = None
        if rng.random() < 0.6:
            a = rng.choice([None, 1, 2])
            b = rng.choice([None, n - 1, n - 2, 2])
            w = [a, b] if (a is not None or b is not None) else None
        contexts.append({"streams": ctx_streams, "window": w})
    has_time = rng.random() < 0.9 and "time" not in sids
    case = {"mode": "pipe", "n": n, "streams": streams, "contexts": contexts, "has_time": has_time,
            "has_z": rng.random() < 0.7 and "z" not in sids, "has_pos": rng.random() < 0.7}
    if "time" in sids:
        case["has_time"] = False
    if case["has_time"] and any(c["window"] for c in contexts):
        # a window over a frame without z / lat / lon columns makes collect_results (called by
        # PandasStore.__init__) raise ValueError: reported separately, not a case of save()
        case["has_z"] = case["has_pos"] = True
    tests = sorted({t for c in contexts for ts in c["streams"].values() for t in ts})
    return _options(rng, sids, tests, case)


def gen_store(tier, rng):
    cases = []
    nd, npipe = (1300, 500) if tier == "quick" else (12000, 4000)
    # fixed cases first: the suspected deviations
    base = {"mode": "pipe", "n": 5, "has_time": True, "has_z": True, "has_pos": True,
            "streams": {"a.b": ["1", "2", "7", "12", None], "a_b": ["1", "1", "1", "1", "1"]},
            "contexts": [{"streams": {"a.b": ["gross_range_test"], "a_b": ["gross_range_test", "valid_range_test"]},
                          "window": [1, 4]}]}
    for wd in (None, True, False):
        for wa in (None, True, False):
            for inc, exc in [("absent", "absent"), ("absent", [["s", "a.b"]]), ([["s", "a.b"]], "absent"),
                             ([["t", "gross_range_test"]], [["s", "zz"]]), ([["s", "a_b"]], [["t", "valid_range_test"]]),
                             ([["fn", "gross_range_test"], ["s", "a.b"]], [["fn", "valid_range_test"]]),
                             (None, None), ([], "absent"), ("absent", []), ("absent", [["s", "a.b"], ["s", "a_b"]])]:
                for aggs in ([], [None]):
                    c = json.loads(json.dumps(base))
                    c.update({"write_data": wd, "write_axes": wa, "include": inc, "exclude": exc, "aggs": aggs})
                    cases.append(c)
    for _ in range(nd):
        cases.append(_direct_case(rng))
    for _ in range(nd // 10):
        cases.append(_direct_case(rng, big=True))
    for _ in range(nd // 20):
        cases.append(_ragged_case(rng))
    made = 0
    while made < npipe:
        c = _pipe_case(rng)
        try:
            with warnings.catch_warnings():
                warnings.simplefilter("ignore")
                _build_store(c)
        except Exception as e:  # noqa: BLE001
            # PandasStore.__init__ (collect_results) failed: not a case of save(); see INIT_FAILURES
            INIT_FAILURES.append((type(e).__name__, str(e)[:120], c))
            continue
        cases.append(c)
        made += 1
    for c in cases:
        if c["mode"] == "pipe" and "time" not in c["streams"] and not any(s in c["streams"] for s in ("z", "lat", "lon")) \
                and rng.random() < 0.25:
            c["frontend"] = "numpy_masked"
    for c in cases:
        if c["mode"] == "pipe" and c.get("has_pos") and rng.random() < 0.2:
            c["pos_only"] = rng.choice(["lat", "lon"])
        elif c["mode"] == "pipe" and c.get("has_pos") and rng.random() < 0.25:
            c["lat_int"] = True
    for c in cases:
        if c.get("domain", True) and rng.random() < 0.25:
            c["presave"] = rng.choice(["default", "data", "noaxes"])
    return cases


INIT_FAILURES = []
