"""Generic correspondence runner: implementation vs Coq model on generated cases,
with history (shuffled order, repeats) and purity checks."""
import json

import core


class Adapter:
    name = "?"
    imports = ["Base"]
    rtype = "outcome"
    eqb = "outcome_eqb"

    def impl(self, case):
        """-> (canonical outcome, list of mutated argument names)"""
        raise NotImplementedError

    def model(self, case):
        """-> Coq expression of type rtype"""
        raise NotImplementedError

    def spec(self, case):
        """-> Coq expression of the pointwise specification (evaluated when the theorems of the
        property no longer build, to search for an input on which the property itself fails)"""
        return None

    def expected(self, canon):
        return core.outcome_coq(canon)

    def printed_to_canon(self, printed):
        return core.coq_outcome_to_canon(printed)

    def in_domain(self, case):
        return True

    def nontrivial(self, case, canon):
        if canon.startswith("R:"):
            return True
        return len(set(canon[2:].split(","))) >= 2


def run_adapter(ad, cases, rng, repeat_frac=0.1, tag=None, with_spec=False):
    """Returns dict(evaluations, distinct_nontrivial, failures, errors, samples, distribution)"""
    order = list(range(len(cases)))
    rng.shuffle(order)
    canon = [None] * len(cases)
    failures = []
    for i in order:
        c, mutated = ad.impl(cases[i])
        canon[i] = c
        if mutated:
            failures.append({"kind": "purity", "function": ad.name, "case": cases[i], "impl": c,
                             "clause": f"arguments modified by the call: {mutated}"})
    # history: repeat a sample later, in another order
    again = [i for i in order if rng.random() < repeat_frac]
    rng.shuffle(again)
    for i in again:
        c, _ = ad.impl(cases[i])
        if c != canon[i]:
            failures.append({"kind": "history", "function": ad.name, "case": cases[i], "impl": canon[i],
                             "impl_again": c, "clause": "repeated call returned a different result"})
    pairs, idx = [], []
    for i, case in enumerate(cases):
        exp = ad.expected(canon[i])
        if exp is None:
            failures.append({"kind": "shape", "function": ad.name, "case": case, "impl": canon[i],
                             "in_domain": ad.in_domain(case),
                             "clause": "result is not a plain array of the five flags (masked / non-flag / wrong shape)"})
            continue
        pairs.append((ad.model(case), exp))
        idx.append(i)
    mism, errors = core.eval_cases(tag or ad.name, ad.imports, ad.rtype, ad.eqb, pairs)
    for k, printed in mism.items():
        i = idx[k]
        failures.append({"kind": "correspondence", "function": ad.name, "case": cases[i], "impl": canon[i],
                         "model": ad.printed_to_canon(printed), "in_domain": ad.in_domain(cases[i]),
                         "clause": "implementation differs from the Coq model (= specification, by the refinement theorem)"})
    if with_spec and cases and ad.spec(cases[0]) is not None:
        spairs = [(ad.spec(cases[i]), ad.expected(canon[i])) for i in idx]
        smism, serrors = core.eval_cases((tag or ad.name) + "_spec", ad.imports, ad.rtype, ad.eqb, spairs)
        errors += serrors
        for k, printed in smism.items():
            i = idx[k]
            failures.append({"kind": "predicate", "function": ad.name, "case": cases[i], "impl": canon[i],
                             "spec": ad.printed_to_canon(printed), "in_domain": ad.in_domain(cases[i]),
                             "clause": "implementation differs from the property's pointwise specification"})
    nontriv = set()
    dist = {}
    for i, case in enumerate(cases):
        key = json.dumps(case, sort_keys=True, default=str)
        if ad.nontrivial(case, canon[i]):
            nontriv.add(key)
        kind = "raises:" + canon[i][2:] if canon[i].startswith("R:") else "flags"
        dist[kind] = dist.get(kind, 0) + 1
    samples = [{"function": ad.name, "case": cases[i], "impl": canon[i]} for i in order[:3]]
    return {
        "evaluations": len(cases) + len(again),
        "distinct_nontrivial": len(nontriv),
        "failures": failures,
        "errors": [f"{n}: {o}" for n, o in errors],
        "samples": samples,
        "distribution": {ad.name: dist},
        "canon": canon,
    }


def merge(results, rule, exhaustive=False):
    out = {"evaluations": 0, "distinct_nontrivial": 0, "failures": [], "errors": [], "samples": [],
           "distribution": {}, "rule": rule, "exhaustive": exhaustive}
    for r in results:
        out["evaluations"] += r["evaluations"]
        out["distinct_nontrivial"] += r["distinct_nontrivial"]
        out["failures"] += r["failures"]
        out["errors"] += r.get("errors", [])
        out["samples"] += r["samples"][:2]
        for k, v in r.get("distribution", {}).items():
            out["distribution"][k] = v
    return out


def simple_run(ctx, pairs, rule, with_spec=None, blocks=()):
    """pairs: [(adapter instance, generator function)]; blocks: extra relations evaluated on the implementation,
    each `block(adapter, cases, tier, rng) -> result dict | None`"""
    rng, tier = ctx["rng"], ctx["tier"]
    ws = (not ctx["props_ok"]) if with_spec is None else with_spec
    rs = []
    for ad, gen in pairs:
        cases = gen(tier, rng)
        rs.append(run_adapter(ad, cases, rng, with_spec=ws))
        for b in blocks:
            r = b(ad, cases, tier, rng)
            if r is not None:
                rs.append(r)
    return merge(rs, rule)


def simple_replay(adapters_by_name, payload):
    ad = adapters_by_name[payload["function"]]
    canon, mutated = ad.impl(payload["case"])
    mism, errs = core.eval_cases("replay", ad.imports, ad.rtype, ad.eqb,
                                 [(ad.model(payload["case"]), ad.expected(canon) or "(Raises OtherError)")])
    return {"impl": canon, "model": ad.printed_to_canon(mism[0]) if 0 in mism else "== impl", "mutated": mutated,
            "errors": errs}


class SpecOf(Adapter):
    """implementation vs the SPECIFICATION side of another adapter (composition: no recursion between
    model() and spec())"""

    def __init__(self, inner, name=None):
        self.inner = inner
        self.name = name or (inner.name + "_spec")
        self.imports = inner.imports
        self.rtype = inner.rtype
        self.eqb = inner.eqb

    def impl(self, case):
        return self.inner.impl(case)

    def model(self, case):
        return self.inner.spec(case)

    def expected(self, canon):
        return self.inner.expected(canon)

    def printed_to_canon(self, printed):
        return self.inner.printed_to_canon(printed)

    def in_domain(self, case):
        return self.inner.in_domain(case)

    def nontrivial(self, case, canon):
        return self.inner.nontrivial(case, canon)
