#!/venv/bin/python
"""try_adapter.py <module> <AdapterClass> <gen_function> [quick|thorough] — run one correspondence and
print the failures (development aid)."""
import importlib
import json
import os
import sys

sys.path.insert(0, os.path.dirname(os.path.abspath(__file__)))
import adapters  # noqa: E402
import core  # noqa: E402

mod = importlib.import_module(sys.argv[1])
ad = getattr(mod, sys.argv[2])()
tier = sys.argv[4] if len(sys.argv) > 4 else "quick"
rng = core.Rng(1)
ok, log = core.coq_make([i for i in ad.imports])
if not ok:
    print(log[-3000:])
    sys.exit(2)
cases = getattr(mod, sys.argv[3])(tier, rng)
r = adapters.run_adapter(ad, cases, rng)
print("cases", len(cases), "nontrivial", r["distinct_nontrivial"], "failures", len(r["failures"]), "errors", r["errors"][:2])
print("distribution", r["distribution"])
seen = {}
for f in sorted(r["failures"], key=lambda f: len(json.dumps(f, default=str))):
    key = (f["kind"], f.get("impl", "")[:3], f.get("model", "")[:3])
    seen.setdefault(key, []).append(f)
for key, fs in seen.items():
    print(key, len(fs))
    for f in fs[:4]:
        print("   ", json.dumps(f, default=str))
