"""config.Call.run against CallRun.v: a recording test function with a generated signature is wrapped
in a Call with configured keyword arguments and run with passed ones."""
import core
from adapters import Adapter
from core import clist, coq_string, z

NAMES = ["inp", "tinp", "zinp", "lon", "lat", "p", "q", "boom", "extra", "method"]


def make_func(pos_or_kw, required, kwonly, var_kw):
    """def f(<required positional-or-keyword>, <optional positional-or-keyword>=0, *, <kwonly>=0, **rest)"""
    params = [n for n in pos_or_kw if n in required] + [f"{n}=_S" for n in pos_or_kw if n not in required]
    if kwonly:
        params.append("*")
        params += [f"{n}=_S" for n in kwonly]
    if var_kw:
        params.append("**rest")
    src = f"def recorded({', '.join(params)}):\n    received = {{k: v for k, v in dict(locals()).items() if v is not _S}}\n"
    src += "    rest = received.pop('rest', {})\n" if var_kw else ""
    src += "    LOG.append(received)\n    if received.get('boom') == 1:\n        raise ValueError('boom')\n    return 'ok'\n"
    env = {"LOG": [], "_S": object()}
    exec(src, env)  # noqa: S102
    return env["recorded"], env["LOG"]


class CallRunAdapter(Adapter):
    """case: {sig: [names positional-or-keyword], required: [...], kwonly: [...], var_kw: bool,
              configured: [[k, v]...], passed: [[k, v]...]}"""
    name = "Call.run"
    imports = ["Base", "CallRun"]
    rtype = "(list (list (string * Z)))"
    eqb = "kwl_eqb"

    def impl(self, case):
        from functools import partial
        import logging

        from ioos_qc.config import Call

        logging.disable(logging.CRITICAL)
        fn, log = make_func(case["sig"], case["required"], case["kwonly"], case["var_kw"])
        fn.__module__ = "ioos_qc.qartod"
        call = Call(stream_id="s", call=partial(fn, (), **dict(case["configured"])))
        passed = dict(case["passed"])
        before = repr(sorted(passed.items()))
        try:
            res = call.run(**passed)
        except Exception as e:  # noqa: BLE001
            return core.canon_exc(e), []
        mutated = ["passed"] if repr(sorted(passed.items())) != before else []
        # what the test received when it produced a result (explicitly given keyword arguments only)
        out = []
        if len(res) == 1:
            given = [k for k in self._given_order(case)]
            rec = log[-1]
            out.append([[k, rec[k]] for k in given if k in rec])
        elif len(res) > 1:
            return "X:multiple", mutated
        return "K:" + core.json.dumps(out), mutated

    @staticmethod
    def _given_order(case):
        seen = []
        for k, _ in case["configured"] + case["passed"]:
            if k not in seen:
                seen.append(k)
        return seen

    def expected(self, canon):
        if not canon.startswith("K:"):
            return None
        rs = core.json.loads(canon[2:])
        return clist([clist([f"({coq_string(k)}, {z(v)})" for k, v in r]) for r in rs])

    def model(self, case):
        def kw(l):
            return clist([f"({coq_string(k)}, {z(v)})" for k, v in l])
        return (f"(call_run {clist([coq_string(s) for s in case['sig']])} "
                f"(echo_test {clist([coq_string(s) for s in case['required']])}) {kw(case['configured'])} {kw(case['passed'])})")

    def printed_to_canon(self, printed):
        return printed

    def nontrivial(self, case, canon):
        return bool(set(k for k, _ in case["configured"]) & set(k for k, _ in case["passed"])) or canon == "K:[]"


def gen_callrun(tier, rng):
    cases = []
    for _ in range(600 if tier == "quick" else 6000):
        names = rng.sample(NAMES, rng.randint(1, 7))
        sig = [n for n in names if rng.random() < 0.7] or [names[0]]
        others = [n for n in names if n not in sig]
        kwonly = [n for n in others if rng.random() < 0.4]
        required = [n for n in sig if rng.random() < 0.25]
        conf_keys = rng.sample(NAMES, rng.randint(0, 5))
        pass_keys = rng.sample(NAMES, rng.randint(0, 5))
        cases.append({"sig": sig, "required": required, "kwonly": kwonly, "var_kw": rng.random() < 0.3,
                      "configured": [[k, rng.randint(0, 3)] for k in conf_keys],
                      "passed": [[k, rng.randint(0, 3)] for k in pass_keys]})
    return cases
