"""Adapter + generator for results.collect_results (list and dict forms): the 'input' is a
sequence of ContextResults (an operation history)."""
import itertools
from fractions import Fraction as F

import core
from adapters import Adapter
from core import clist, coq_string, q

FLAGS = [1, 2, 3, 4, 9]
NPAY = 5


def _mk_results(case):
    import numpy as np
    import pandas as pd
    from ioos_qc.results import CallResult, ContextResult

    def dummy():
        return None

    out = []
    for r in case["rs"]:
        mask = np.array(r["mask"], dtype=bool)
        calls = [CallResult(package=c["pkg"], test=c["test"], function=dummy,
                            results=np.ma.array(np.array(c["flags"], dtype="uint8"))) for c in r["calls"]]
        k = int(mask.sum())
        if r["axes"]:
            rows = [i for i, b in enumerate(r["mask"]) if b]
            data = np.array([float(F(case["data"][i])) if case["data"][i] is not None else np.nan for i in rows],
                            dtype="float64")
            tinp = np.array([case["t0"] + i for i in rows], dtype="int64").astype("datetime64[s]").astype("datetime64[ns]")
            zo = case.get("zero_axes", [False, False, False])
            fa = 1.0 if case.get("frac_axes") else 0.0          # axes with a fractional part: 10.25, 20.5, 30.75
            zinp = np.array([0.0 if zo[0] else float(10 + i) + fa / 4 for i in rows], dtype="float64")   # a surface sensor: depth 0
            lat = np.array([0.0 if zo[1] else float(20 + i) + fa / 2 for i in rows], dtype="float64")    # on the equator
            lon = np.array([0.0 if zo[2] else float(30 + i) + 3 * fa / 4 for i in rows], dtype="float64")
            if case.get("int_data") and not np.isnan(data).any() and np.all(data == np.floor(data)):
                data = data.astype("int64")                    # raw counts: an integer-typed data column
        else:
            # what the streams pass when an axis is absent
            data = np.array([float(F(case["data"][i])) if case["data"][i] is not None else np.nan
                             for i, b in enumerate(r["mask"]) if b], dtype="float64")
            tinp = pd.Series(dtype="datetime64[ns]").to_numpy()
            zinp = pd.Series(dtype="float64").to_numpy()
            lat = pd.Series(dtype="float64").to_numpy()
            lon = pd.Series(dtype="float64").to_numpy()
        # the arrays a stream hands over may be read-only views of the caller's table (pandas does that):
        # collecting must neither need to write into them nor do so
        for a in (data, tinp, zinp, lat, lon, mask):
            a.flags.writeable = False
        out.append(ContextResult(stream_id=r["stream"], results=calls, subset_indexes=mask,
                                 data=data, tinp=tinp, zinp=zinp, lat=lat, lon=lon))
    return out


def _canon_arr(a, kind):
    """-> list of 'M' (masked) | None (NaN/NaT) | 'p/q'"""
    import numpy as np

    if a is None:
        return ["ABSENT"]
    mask = np.ma.getmaskarray(a) if isinstance(a, np.ma.MaskedArray) else np.zeros(np.shape(a), dtype=bool)
    data = a.data if isinstance(a, np.ma.MaskedArray) else np.asarray(a)
    out = []
    for d, m in zip(data.tolist() if kind != "t" else list(data), mask.tolist()):
        if m:
            out.append("M")
        elif kind == "t":
            if not isinstance(d, (np.datetime64, np.timedelta64)):
                # a timezone-aware time column is handed over as pandas Timestamps: the instant, in UTC
                import pandas as pd
                ts = pd.Timestamp(d)
                d = np.datetime64("NaT") if ts is pd.NaT else np.datetime64(
                    (ts.tz_convert("UTC").tz_localize(None) if ts.tzinfo is not None else ts).value, "ns")
            if np.isnat(d):
                out.append(None)
            else:
                out.append(core.fr(F(int(d.astype("datetime64[ns]").astype("int64")), 10 ** 9)))
        elif d != d:
            out.append(None)
        else:
            out.append(core.fr(F(d)))
    return out


class Collect(Adapter):
    """case: {how, n, t0, data: [..], rs: [{stream, mask, axes, calls: [{pkg, test, flags}]}]}"""
    name = "collect_results"
    imports = ["Base", "Collect"]
    rtype = "collected"
    eqb = f"(collected_eqb {NPAY})"

    def impl(self, case):
        import warnings

        from ioos_qc.results import collect_results

        try:
            rs = _mk_results(case)
            with warnings.catch_warnings():
                warnings.simplefilter("ignore")
                res = collect_results(rs, how=case["how"])
            if case["how"] == "list":
                fl, pay = [], []
                for cr in res:
                    key = [cr.stream_id, cr.package, cr.test]
                    fl.append([key, _canon_arr(cr.results, "f")])
                    pay.append([key, [_canon_arr(cr.data, "d"), _canon_arr(cr.tinp, "t"), _canon_arr(cr.zinp, "d"),
                                      _canon_arr(cr.lat, "d"), _canon_arr(cr.lon, "d")]])
                return "C:" + core.json.dumps({"fl": fl, "pay": pay}), []
            fl = []
            for stream, pk in res.items():
                for pkg, tests in pk.items():
                    for test, arr in tests.items():
                        fl.append([[stream, pkg, test], _canon_arr(arr, "f")])
            return "C:" + core.json.dumps({"fl": fl, "pay": []}), []
        except Exception as e:  # noqa: BLE001
            return core.canon_exc(e), []

    @staticmethod
    def _key(k):
        return f"({coq_string(k[0])}, {coq_string(k[1])}, {coq_string(k[2])})"

    def expected(self, canon):
        if canon.startswith("R:"):
            return "(CRaises ValueError)"
        d = core.json.loads(canon[2:])

        def oflag(x):
            if x == "M":
                return "None"
            v = int(F(x))
            return f"Some {core.FLAG_BY_CODE[v]}" if v in core.FLAG_BY_CODE else None

        fl = []
        for k, arr in d["fl"]:
            items = [oflag(x) for x in arr]
            if any(i is None for i in items):
                return None
            fl.append(f"({self._key(k)}, {clist(items)})")

        def oobs(x):
            if x == "M":
                return "None"
            if x is None:
                return "Some None"
            return f"Some (Some {q(F(x))})"

        pay = []
        for k, arrs in d["pay"]:
            if any(a == ["ABSENT"] for a in arrs):
                return None
            pay.append(f"({self._key(k)}, {clist([clist([oobs(x) for x in a]) for a in arrs])})")
        return f"(CList {clist(fl)} {clist(pay)})"

    def model(self, case):
        rs = []
        for r in case["rs"]:
            calls = clist([f"{{| c_pkg := {coq_string(c['pkg'])}; c_test := {coq_string(c['test'])}; "
                           f"c_flags := {clist([core.FLAG_BY_CODE[f] for f in c['flags']])} |}}" for c in r["calls"]])
            rows = [i for i, b in enumerate(r["mask"]) if b]
            data = clist([core.obs(None if case["data"][i] is None else F(case["data"][i])) for i in rows])
            if r["axes"]:
                t = clist([f"Some {q(case['t0'] + i)}" for i in rows])
                zo = case.get("zero_axes", [False, False, False])
                fa = 1 if case.get("frac_axes") else 0
                zz = clist([f"Some {q(0 if zo[0] else 10 + i + F(fa, 4))}" for i in rows])
                la = clist([f"Some {q(0 if zo[1] else 20 + i + F(fa, 2))}" for i in rows])
                lo = clist([f"Some {q(0 if zo[2] else 30 + i + F(3 * fa, 4))}" for i in rows])
                pay = clist([data, t, zz, la, lo])
            else:
                pay = clist([data, "[]", "[]", "[]", "[]"])
            rs.append(f"{{| r_stream := {coq_string(r['stream'])}; r_calls := {calls}; "
                      f"r_mask := {clist([core.coq_bool(b) for b in r['mask']])}; r_pay := {pay} |}}")
        fn = "collect_list_model" if case["how"] == "list" else "collect_dict_model"
        return f"({fn} {clist(rs)})"

    def printed_to_canon(self, printed):
        return printed

    def spec(self, case):
        # the property: flags of the last covering context per key/row; never raises on the domain
        m = Collect.model(self, case)
        rs = m[m.index("["):-1]
        fill = "None" if case["how"] == "list" else "(Some UNKNOWN)"
        return f"(collect_spec {fill} {case['n']} {rs})"

    def in_domain(self, case):
        # C06's domain: disjoint windows per key, one flag per selected row
        if not case.get("wf", True):
            return False
        return True

    def nontrivial(self, case, canon):
        return len(case["rs"]) >= 2 or canon.startswith("R:")


class CollectDict(Collect):
    name = "collect_results_dict"
    eqb = "collected_eqb_unordered"


class CollectSpec(Collect):
    """implementation vs the property's specification (flags only), on the property's domain"""
    name = "collect_results_spec"
    eqb = "(collected_flags_eqb true)"

    def model(self, case):
        return Collect.spec(self, case)


class CollectDictSpec(CollectDict):
    name = "collect_results_dict_spec"
    eqb = "(collected_flags_eqb false)"

    def model(self, case):
        return Collect.spec(self, case)


def _layouts(n, k, rng, disjoint=True):
    """k masks over n rows; disjoint partitions with possibly uncovered rows"""
    if disjoint:
        owner = [rng.randint(-1, k - 1) for _ in range(n)]
        return [[o == j for o in owner] for j in range(k)]
    return [[rng.random() < 0.5 for _ in range(n)] for _ in range(k)]


def gen_collect(tier, rng, how="list"):
    cases = []
    tests = [("qartod", "t1"), ("qartod", "t2"), ("argo", "t1")]
    count = 900 if tier == "quick" else 6000
    for ci in range(count):
        n = rng.randint(0, 5)
        k = rng.randint(1, 3)
        disjoint = rng.random() < 0.85
        axes = rng.random() < 0.8
        masks = _layouts(n, k, rng, disjoint)
        special = rng.random()
        if special < 0.15 and k >= 1:
            masks[0] = [True] * n            # an all-covering context
            if disjoint:
                for j in range(1, k):
                    masks[j] = [False] * n
        elif special < 0.25:
            masks[-1] = [False] * n          # an empty window
        multi_stream = rng.random() < 0.3
        same_key = rng.random() < 0.7
        rs = []
        wf = True
        for j in range(k):
            ncalls = rng.choice([1, 1, 1, 2, 0])
            stream = rng.choice(["a", "b"]) if multi_stream else "a"
            cs = []
            chosen = rng.sample(tests, ncalls) if not same_key else tests[:ncalls]
            for pkg, t in chosen:
                cnt = sum(masks[j])
                cs.append({"pkg": pkg, "test": t, "flags": [rng.choice(FLAGS) for _ in range(cnt)]})
            rs.append({"stream": stream, "mask": masks[j], "axes": axes, "calls": cs})
        if not disjoint:
            wf = False
        data = [None if rng.random() < 0.15 else core.fr(F(rng.randint(-64, 640), 64)) for _ in range(n)]
        zero_axes = [rng.random() < 0.3, rng.random() < 0.2, rng.random() < 0.2]
        if rng.random() < 0.15:
            data = [None if d is None else "0" for d in data]      # all-zero data as well
        cases.append({"how": how, "n": n, "t0": 1577836800 + ci, "data": data, "rs": rs, "wf": wf,
                      "zero_axes": zero_axes})
        if rng.random() < 0.3:
            cases[-1]["frac_axes"] = True
        if rng.random() < 0.3:
            # an integer-typed data column (raw counts, no gaps) beside fractional depths / positions
            cases[-1]["data"] = [core.fr(F(rng.randint(-5, 40))) for _ in range(n)]
            cases[-1]["int_data"] = True
            cases[-1]["frac_axes"] = True
    # a few malformed histories: flag array of the wrong length (numpy broadcast / ValueError)
    for _ in (1,):
        cases.append({"how": how, "n": 3, "t0": 1577836800, "data": ["1", "2", "3"], "wf": False,
                      "rs": [{"stream": "a", "mask": [True, True, False], "axes": True,
                              "calls": [{"pkg": "qartod", "test": "t1", "flags": [4]}]}]})
        cases.append({"how": how, "n": 3, "t0": 1577836800, "data": ["1", "2", "3"], "wf": False,
                      "rs": [{"stream": "a", "mask": [True, True, True], "axes": True,
                              "calls": [{"pkg": "qartod", "test": "t1", "flags": [4, 1]}]}]})
    return cases


def gen_collect_dict(tier, rng):
    return gen_collect(tier, rng, how="dict")
