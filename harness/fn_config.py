"""Configuration parsing (config.Config / ContextConfig, utils.load_config_as_dict / load_config_from_xarray /
dict_update / dict_depth) against the Coq model of Config.v.

A case is a well-formed configuration W (list of contexts), one of the four layouts and one carrier:

    layouts : contexts | streams | bare_streams | bare_module
    carriers: dict | odict | yaml | json | stringio_yaml | stringio_json | path_str | path_obj | xr_global | xr_vars

`Config(source).calls` is canonicalised to
    [[stream_id, module, method, kwargs tree, starting, ending, region (None | list of geometry mappings)]]
and compared (a) with the Coq `config_calls` evaluated on the configuration tree the carrier delivers (the
spelled dict; key-sorted for the ruamel safe dumper, which sorts mapping keys) and (b) with the intended meaning
of W computed directly, across all carriers and layouts (`equivalence_failures`)."""
import io
import json
import os
from collections import OrderedDict
from fractions import Fraction as F
from pathlib import Path

import core
from adapters import Adapter
from core import clist

TMP = core.VERIF / "tmp"
DEFAULT_STREAM = "_stream"

REAL = {
    "qartod": ["location_test", "gross_range_test", "climatology_test", "spike_test", "rate_of_change_test",
               "flat_line_test", "attenuated_signal_test", "density_inversion_test", "aggregate"],
    "argo": ["pressure_increasing_test", "speed_test"],
    "axds": ["valid_range_test"],
}
UNKNOWN_MODULES = ["nomodule", "qartodx", "ncei"]
UNKNOWN_TESTS = ["no_such_test", "gross_range", "spike_test2"]
STREAMS = ["v1", "temp", "salinity", "sea_water_temperature", "z", "pressure", "y", "no", "on"]
YAML11_WORDS = {"y", "n", "yes", "no", "on", "off", "true", "false", "~", "null"}       # not strings under YAML 1.1
LAYOUTS = ["contexts", "streams", "bare_streams", "bare_module"]
CARRIERS = ["dict", "odict", "yaml", "json", "stringio_yaml", "stringio_json", "path_str", "path_obj",
            "xr_global", "xr_vars"]
YAML_SORTED = {"yaml", "stringio_yaml", "path_str_yaml", "path_obj_yaml", "xr_global_yaml"}


# ------------------------------------------------------------------ trees

def sort_tree(v):
    """what ruamel's safe dumper delivers: mapping keys sorted"""
    if isinstance(v, dict):
        return {k: sort_tree(v[k]) for k in sorted(v)}
    if isinstance(v, (list, tuple)):
        return [sort_tree(x) for x in v]
    return v


def tree(v):
    """Python value -> JSON tree (tuples -> lists, numpy scalars -> numbers)"""
    if v is None or isinstance(v, (bool, str)):
        return v
    if isinstance(v, int):
        return v
    if isinstance(v, float):
        return int(v) if v == int(v) and abs(v) < 2 ** 53 else v
    if isinstance(v, dict):
        return {str(k): tree(x) for k, x in v.items()}
    if isinstance(v, (list, tuple)):
        return [tree(x) for x in v]
    if hasattr(v, "item"):
        return tree(v.item())
    return "?" + type(v).__name__ + ":" + str(v)


def coq_str(s):
    assert '"' not in s, s
    return f'"{s}"%string'


def to_cfg(v):
    if v is None:
        return "CNull"
    if isinstance(v, bool):
        return f"(CBool {core.coq_bool(v)})"
    if isinstance(v, (int, float)):
        return f"(CNum {core.q(F(v))})"
    if isinstance(v, str):
        return f"(CStr {coq_str(v)})"
    if isinstance(v, (list, tuple)):
        return f"(CList {clist([to_cfg(x) for x in v])})"
    if isinstance(v, dict):
        return "(CDict " + clist([f"({coq_str(k)}, {to_cfg(x)})" for k, x in v.items()]) + ")"
    raise TypeError(type(v))


def call_coq(c):
    sid, mod, meth, kw, st, en, reg = c
    return (f"{{| k_stream := {coq_str(sid)}; k_module := {coq_str(mod)}; k_test := {coq_str(meth)}; "
            f"k_kwargs := {to_cfg(kw)}; k_window := ({to_cfg(st)}, {to_cfg(en)}); k_region := {to_cfg(reg)} |}}")


# ------------------------------------------------------------------ W -> spelled configuration

def streams_dict(ctx):
    return {sid: {m: {t: kw for t, kw in tests} for m, tests in mods} for sid, mods in ctx["streams"]}


def ctx_dict(ctx):
    d = {}
    if ctx["window"] is not None:
        d["window"] = ctx["window"]
    if ctx["region"] != "absent":
        d["region"] = ctx["region"]
    d["streams"] = streams_dict(ctx)
    return d


def layout_applicable(W, layout):
    if layout == "contexts":
        return True
    if len(W) != 1:
        return False
    if layout == "streams":
        return True
    if W[0]["window"] is not None or W[0]["region"] != "absent":
        return False
    if layout == "bare_streams":
        return True
    return len(W[0]["streams"]) == 1


def spell(W, layout):
    if layout == "contexts":
        return {"contexts": [ctx_dict(c) for c in W]}
    if layout == "streams":
        return ctx_dict(W[0])
    if layout == "bare_streams":
        return streams_dict(W[0])
    if layout == "bare_module":
        return streams_dict(W[0])[W[0]["streams"][0][0]]
    raise ValueError(layout)


def default_stream(case):
    return case["W"][0]["streams"][0][0] if case["layout"] == "bare_module" else DEFAULT_STREAM


def xr_vars_of(W):
    """(target, module, test, kwargs) per data variable; None parameters are written as the JSON object {}"""
    out = []
    for sid, mods in W[0]["streams"]:
        for m, tests in mods:
            for t, kw in tests:
                out.append([sid, m, t, {} if kw is None else kw])
    return out


def xr_vars_applicable(W):
    return (len(W) == 1 and W[0]["window"] is None and W[0]["region"] == "absent"
            and all(kw is None or isinstance(kw, dict) for _, mods in W[0]["streams"] for _, ts in mods for _, kw in ts))


def region_geoms(region):
    """intended meaning of a region: list of geometry mappings or None"""
    if region in ("absent", None):
        return None
    if "features" in region:
        return [f["geometry"] for f in region["features"]]
    if "geometry" in region:
        return [region["geometry"]]
    return [region]


def intended_calls(W, stream_rename=None):
    """the property's reading of W: one call per configured (stream, module, test) that exists"""
    out = []
    for ctx in W:
        win = ctx["window"] or {}
        for sid, mods in ctx["streams"]:
            for m, tests in mods:
                for t, kw in tests:
                    if m in REAL and t in REAL[m]:
                        out.append([sid, m, t, tree(kw) if kw else {}, win.get("starting"), win.get("ending"),
                                    tree(region_geoms(ctx["region"]))])
    return out


def deviation_of(case):
    W, layout = case["W"], case["layout"]
    if case["carrier"] == "xr_vars":
        return None
    kws = [kw for c in W for _, mods in c["streams"] for _, ts in mods for _, kw in ts]
    if layout == "bare_streams" and not any(isinstance(kw, dict) for kw in kws):
        return "depth_bare_streams"
    if layout == "bare_module" and any(isinstance(kw, dict) and any(isinstance(v, dict) for v in kw.values())
                                       for kw in kws):
        return "depth_bare_module"
    if layout in ("contexts", "streams") and any(
            isinstance(c["region"], dict) and "features" not in c["region"] and "geometry" not in c["region"]
            for c in W):
        return "region_bare_geometry"
    return None


# ------------------------------------------------------------------ carriers

def yaml_text(d):
    from ruamel.yaml import YAML

    s = io.StringIO()
    YAML(typ="safe").dump(d, s)
    return s.getvalue()


def styled(text, style, yaml):
    """the same document written differently: uniformly indented, surrounded by blank lines, or (YAML) after a
    comment and a document-start marker"""
    if style == "indent":
        return "".join(("  " + ln if ln.strip() else ln) for ln in text.splitlines(True)) if yaml \
            else "\n   " + json.dumps(json.loads(text), indent=3).replace("\n", "\n   ") + "\n"
    if style == "blank":
        return "\n\n" + text + "\n\n"
    if style == "comment" and yaml:
        return "# written by the deployment tool\n---\n" + text
    if style == "yaml11" and yaml:
        # a document that declares YAML 1.1 (what PyYAML-based tools write): read by its own rules, and without any
        # effect on the documents loaded after it
        import re
        if not any(w.lower() in YAML11_WORDS for w in re.findall(r"[A-Za-z~]+", text)):
            return "%YAML 1.1\n---\n" + text
    return text


def carrier_flavour(case):
    """resolved carrier name incl. the text flavour of files / attributes"""
    c = case["carrier"]
    if c in ("path_str", "path_obj", "xr_global"):
        return c + "_" + case.get("flavour", "yaml")
    return c


def delivered_tree(case):
    """the configuration tree the carrier hands to Config (= input of the Coq model)"""
    d = spell(case["W"], case["layout"])
    return sort_tree(d) if carrier_flavour(case) in YAML_SORTED else d


def _dataset(attrs=None):
    import numpy as np
    import xarray as xr

    return xr.Dataset({"obs": (("time",), np.zeros(2))}, attrs=attrs or {})


def make_source(case):
    """-> (source object, cleanup callable, dict-to-watch-for-mutation or None)"""
    d = spell(case["W"], case["layout"])
    fl = carrier_flavour(case)
    st = case.get("style")
    ytext = lambda: styled(yaml_text(d), st, True)
    jtext = lambda: styled(json.dumps(d), st, False)
    if fl == "dict":
        return d, None, d
    if fl == "odict":
        od = OrderedDict(d)
        return od, None, od
    if fl == "yaml":
        return ytext(), None, None
    if fl == "json":
        return jtext(), None, None
    if fl == "stringio_yaml":
        return io.StringIO(ytext()), None, None
    if fl == "stringio_json":
        return io.StringIO(jtext()), None, None
    if fl.startswith("path_"):
        TMP.mkdir(exist_ok=True)
        yaml = fl.endswith("yaml")
        # ONE path per format for the whole run: the file is rewritten with the next configuration and read again
        # (an edited configuration file reloaded by the same process must be read anew)
        p = TMP / f"cfg_{os.getpid()}.{'yaml' if yaml else 'json'}"
        p.write_text(ytext() if yaml else jtext())
        src = str(p) if fl.startswith("path_str") else Path(p)
        return src, p.unlink, None
    if fl.startswith("xr_global"):
        text = ytext() if fl.endswith("yaml") else jtext()
        return _dataset({"ioos_qc_config": text}), None, None
    if fl == "xr_vars":
        import numpy as np

        ds = _dataset()
        for i, (tg, m, t, kw) in enumerate(xr_vars_of(case["W"])):
            ds[f"qc_{i}"] = (("time",), np.zeros(2))
            ds[f"qc_{i}"].attrs.update(ioos_qc_module=m, ioos_qc_test=t, ioos_qc_target=tg,
                                       ioos_qc_config=json.dumps(kw))
        return ds, None, None
    raise ValueError(fl)


def canon_calls(cfg):
    from shapely.geometry import mapping

    out = []
    for c in cfg.calls:
        reg = None
        if c.region is not None:
            reg = [sort_tree(tree(mapping(g))) for g in c.region.geoms]
        if c.args != ((),):
            raise AssertionError(f"unexpected positional arguments {c.args!r}")
        sid = c.stream_id if isinstance(c.stream_id, str) else f"<{type(c.stream_id).__name__} {c.stream_id!r}>"
        out.append([sid, c.module, c.method, tree(dict(c.kwargs)), tree(c.window.starting),
                    tree(c.window.ending), reg])
    return out


def run_impl(case):
    """-> (list of canonical calls, mutated?)"""
    import logging
    import warnings

    from ioos_qc.config import Config

    logging.disable(logging.CRITICAL)
    src, cleanup, watch = make_source(case)
    before = json.dumps(tree(watch)) if watch is not None else None
    try:
        with warnings.catch_warnings():
            warnings.simplefilter("ignore")
            if case["layout"] == "bare_module" and case["carrier"] != "xr_vars":
                cfg = Config(src, default_stream_key=default_stream(case))
            else:
                cfg = Config(src)
        calls = canon_calls(cfg)
    finally:
        if cleanup:
            cleanup()
    mutated = watch is not None and json.dumps(tree(watch)) != before
    return calls, mutated


class ConfigCalls(Adapter):
    """case: {W, layout, carrier, flavour, id, deviation}"""
    name = "Config"
    imports = ["Base", "Generated", "Config"]
    rtype = "list callrec"
    eqb = "calls_eqb"

    def impl(self, case):
        try:
            calls, mutated = run_impl(case)
            return "K:" + json.dumps(calls), (["source"] if mutated else [])
        except Exception as e:  # noqa: BLE001
            return core.canon_exc(e), []

    def expected(self, canon):
        if not canon.startswith("K:"):
            return None
        return clist([call_coq(c) for c in json.loads(canon[2:])])

    def model(self, case):
        if case["carrier"] == "xr_vars":
            vs = clist([f"({coq_str(tg)}, {coq_str(m)}, {coq_str(t)}, {to_cfg(kw)})"
                        for tg, m, t, kw in xr_vars_of(case["W"])])
            return f"(config_calls real_known {coq_str(DEFAULT_STREAM)} (from_xarray_vars {vs}))"
        return f"(config_calls real_known {coq_str(default_stream(case))} {to_cfg(delivered_tree(case))})"

    def spec(self, case):
        """calls_of W — the intended meaning (defined for every case; differs from the implementation
        exactly on the tagged deviations, and in call order for xr_vars / key-sorting carriers)"""
        W = case["W"]
        if case["carrier"] == "xr_vars" or carrier_flavour(case) in YAML_SORTED:
            W = json.loads(json.dumps(W))
            if carrier_flavour(case) in YAML_SORTED:
                for c in W:
                    c["streams"] = sorted([[sid, sorted([[m, sorted([[t, sort_tree(kw)] for t, kw in ts])]
                                                         for m, ts in mods])] for sid, mods in c["streams"]])
                    c["region"] = sort_tree(c["region"])
        ctxs = []
        for c in W:
            win = "None" if c["window"] is None else \
                f"(Some ({to_cfg(c['window'].get('starting'))}, {to_cfg(c['window'].get('ending'))}))"
            r = c["region"]
            if r in ("absent", None):
                reg = "RNone"
            elif "features" in r:
                reg = f"(RFeatures {clist([to_cfg(f['geometry']) for f in r['features']])})"
            elif "geometry" in r:
                reg = f"(RFeature {to_cfg(r['geometry'])})"
            else:
                reg = f"(RBare {to_cfg(r)})"
            ss = clist([f"({coq_str(sid)}, " + clist([f"({coq_str(m)}, " + clist(
                [f"({coq_str(t)}, {to_cfg(kw)})" for t, kw in ts]) + ")" for m, ts in mods]) + ")"
                        for sid, mods in c["streams"]])
            ctxs.append(f"{{| w_window := {win}; w_region := {reg}; w_streams := {ss} |}}")
        return f"(calls_of real_known {clist(ctxs)})"

    def printed_to_canon(self, printed):
        return printed

    def in_domain(self, case):
        return case.get("deviation") is None

    def nontrivial(self, case, canon):
        return canon.startswith("K:") and len(json.loads(canon[2:])) >= 1


# ------------------------------------------------------------------ generator

def gq(rng, lo=-40, hi=400):
    """a number on the k/8 grid, int when whole"""
    v = F(rng.randint(lo, hi), 8)
    return int(v) if v.denominator == 1 else float(v)


def span(rng):
    a = gq(rng)
    return [a, a + rng.randint(1, 20)]


def gen_params(rng, module, test):
    r = rng.random()
    if r < 0.12:
        return None
    if r < 0.2:
        return {}
    if test == "location_test":
        kw = {"bbox": [-80, 40, -70, 60] if rng.random() < 0.5 else [gq(rng), gq(rng), gq(rng) + 500, gq(rng) + 500]}
        if rng.random() < 0.4:
            kw["range_max"] = rng.choice([None, gq(rng, 1, 100)])
        return kw
    if test == "gross_range_test":
        kw = {"suspect_span": span(rng), "fail_span": span(rng)}
        return kw if rng.random() < 0.7 else {"fail_span": span(rng)}
    if test == "climatology_test":
        members = []
        for _ in range(rng.randint(1, 3)):
            m = {"vspan": span(rng), "tspan": [rng.randint(0, 5), rng.randint(6, 12)]}
            if rng.random() < 0.5:
                m["fspan"] = span(rng)
            if rng.random() < 0.5:
                m["zspan"] = [0, rng.randint(1, 100)]
            if rng.random() < 0.5:
                m["period"] = rng.choice(["month", "week", "dayofyear"])
            members.append(m)
        if rng.random() < 0.3:
            return {"config": members[0]}          # a mapping-valued parameter
        return {"config": members}
    if test == "spike_test":
        kw = {"suspect_threshold": gq(rng, 1, 80), "fail_threshold": gq(rng, 81, 160)}
        if rng.random() < 0.5:
            kw["method"] = rng.choice(["average", "differential"])
        return kw
    if test == "rate_of_change_test":
        return {"threshold": gq(rng, 1, 80)}
    if test == "flat_line_test":
        return {"suspect_threshold": rng.choice([1800, 3600]), "fail_threshold": rng.choice([7200, 10800]),
                "tolerance": gq(rng, 0, 16)}
    if test == "attenuated_signal_test":
        kw = {"suspect_threshold": gq(rng, 40, 80), "fail_threshold": gq(rng, 1, 39)}
        if rng.random() < 0.6:
            kw["test_period"] = rng.choice([None, 3600, 86400])
        if rng.random() < 0.4:
            kw["min_obs"] = rng.choice([None, 2, 5])
        if rng.random() < 0.5:
            kw["check_type"] = rng.choice(["std", "range"])
        return kw
    if test == "density_inversion_test":
        return {"suspect_threshold": gq(rng, -16, -1), "fail_threshold": gq(rng, -40, -17)}
    if test == "aggregate":
        return None
    if test == "pressure_increasing_test":
        return rng.choice([None, {}])
    if test == "speed_test":
        return {"suspect_threshold": gq(rng, 1, 16), "fail_threshold": gq(rng, 17, 80)}
    if test == "valid_range_test":
        kw = {"valid_span": span(rng)}
        if rng.random() < 0.5:
            kw["start_inclusive"] = rng.random() < 0.5
            kw["end_inclusive"] = rng.random() < 0.5
        if rng.random() < 0.3:
            kw["dtype"] = rng.choice(["float64", "int32"])
        return kw
    # unknown module / test: anything
    return rng.choice([None, {}, {"p": 1}, {"threshold": gq(rng)}, {"span": span(rng)}])


def gen_geometry(rng):
    # keys in alphabetical order (what every carrier delivers and what the canonical form uses)
    if rng.random() < 0.35:
        return {"coordinates": [gq(rng), gq(rng)], "type": "Point"}
    x, y = gq(rng), gq(rng)
    w, h = rng.randint(1, 10), rng.randint(1, 10)
    ring = [[x, y], [x + w, y], [x + w, y + h], [x, y + h], [x, y]]
    return {"coordinates": [ring], "type": "Polygon"}


def gen_region(rng, allow_bare=True):
    r = rng.random()
    if r < 0.45:
        return "absent"
    if r < 0.5:
        return None                                   # region: null
    if r < 0.7:
        feats = [{"geometry": gen_geometry(rng), "properties": {}, "type": "Feature"}
                 for _ in range(rng.randint(0, 2))]
        return {"features": feats, "type": "FeatureCollection"}
    if r < 0.9 or not allow_bare:
        f = {"geometry": gen_geometry(rng), "type": "Feature"}
        if rng.random() < 0.5:
            f["properties"] = {"name": "box"}
        return f
    return gen_geometry(rng)                          # bare geometry object


TIMES = ["2020-01-01T00:00:00", "2020-03-01T12:30:00", "2020-06-15T00:00:00", "2021-01-01T00:00:00"]


def gen_window(rng):
    r = rng.random()
    if r < 0.4:
        return None
    i = rng.randint(0, len(TIMES) - 2)
    w = {}
    kind = rng.choice(["both", "both", "start", "end", "start_null", "empty"])
    if kind in ("both", "start", "start_null"):
        w["starting"] = TIMES[i]
    if kind in ("both", "end"):
        w["ending"] = TIMES[rng.randint(i + 1, len(TIMES) - 1)]
    if kind == "start_null":
        w["ending"] = None
    return w


def gen_ctx(rng, nstreams=None, plain=False):
    ns = nstreams or rng.randint(1, 3)
    sids = rng.sample(STREAMS, ns)
    streams = []
    for sid in sids:
        mods = []
        names = rng.sample(list(REAL), rng.randint(1, 3))
        if rng.random() < 0.25:
            names.insert(rng.randint(0, len(names)), rng.choice(UNKNOWN_MODULES))
        for m in names:
            pool = REAL.get(m, REAL["qartod"])
            tests = rng.sample(pool, rng.randint(1, min(3, len(pool))))
            if rng.random() < 0.25:
                tests.insert(rng.randint(0, len(tests)), rng.choice(UNKNOWN_TESTS))
            mods.append([m, [[t, gen_params(rng, m, t)] for t in tests]])
        streams.append([sid, mods])
    return {"window": None if plain else gen_window(rng), "region": "absent" if plain else gen_region(rng),
            "streams": streams}


def gen_W(rng):
    r = rng.random()
    if r < 0.35:
        return [gen_ctx(rng) for _ in range(rng.randint(2, 3))]
    if r < 0.55:
        return [gen_ctx(rng)]
    if r < 0.8:
        return [gen_ctx(rng, plain=True)]
    return [gen_ctx(rng, nstreams=1, plain=True)]


def special_Ws():
    """the named deviations and boundary shapes"""
    return [
        [{"window": None, "region": "absent", "streams": [["v1", [["argo", [["pressure_increasing_test", None]]]]]]}],
        [{"window": None, "region": "absent", "streams": [["v1", [["argo", [["pressure_increasing_test", {}]]]]]]}],
        [{"window": None, "region": "absent",
          "streams": [["v1", [["qartod", [["aggregate", None]]], ["argo", [["pressure_increasing_test", None]]]]],
                      ["v2", [["argo", [["pressure_increasing_test", None]]]]]]}],
        [{"window": None, "region": "absent",
          "streams": [["v1", [["qartod", [["climatology_test", {"config": {"vspan": [1, 2], "tspan": [0, 3]}}]]]]]]}],
        [{"window": None, "region": "absent",
          "streams": [["v1", [["qartod", [["climatology_test", {"config": [{"vspan": [1, 2], "tspan": [0, 3]}]}]]]]]]}],
        [{"window": None, "region": "absent",
          "streams": [["v1", [["qartod", [["gross_range_test", {"suspect_span": [1, 11], "fail_span": [0, 12]}],
                                          ["spike_test", {"suspect_threshold": 1, "opts": {}}]]]]]]}],
        [{"window": {"starting": "2020-01-01T00:00:00", "ending": "2020-04-01T00:00:00"},
          "region": {"coordinates": [[[0, 0], [4, 0], [4, 4], [0, 4], [0, 0]]], "type": "Polygon"},
          "streams": [["v1", [["qartod", [["gross_range_test", {"suspect_span": [1, 11], "fail_span": [0, 12]}]]]]]]}],
        [{"window": None, "region": "absent", "streams": [["v1", [["nomodule", [["some_test", {"p": 1}]]]]]]}],
    ]


def cases_of_W(W, rng, wid, carriers=None):
    out = []
    for layout in LAYOUTS:
        if not layout_applicable(W, layout):
            continue
        for carrier in (carriers or CARRIERS):
            if carrier == "xr_vars":
                continue
            case = {"W": W, "layout": layout, "carrier": carrier, "id": f"{wid}_{layout}_{carrier}"}
            if carrier in ("path_str", "path_obj", "xr_global"):
                case["flavour"] = rng.choice(["yaml", "json"])
            if carrier not in ("dict", "odict"):
                case["style"] = rng.choice([None, None, "indent", "blank", "comment", "yaml11"])
            case["deviation"] = deviation_of(case)
            out.append(case)
    if xr_vars_applicable(W) and (carriers is None or "xr_vars" in carriers):
        out.append({"W": W, "layout": "bare_streams", "carrier": "xr_vars", "id": f"{wid}_xr_vars", "deviation": None})
    return out


def gen_config(tier, rng):
    cases = []
    for i, W in enumerate(special_Ws()):
        cases += cases_of_W(W, rng, f"s{i}")
    count = 40 if tier == "quick" else 400
    for i in range(count):
        cases += cases_of_W(gen_W(rng), rng, f"g{i}")
    return cases


# ------------------------------------------------------------------ the property on the implementation

def _multiset(calls):
    return sorted(json.dumps(c, sort_keys=True) for c in calls)


def equivalence_failures(rng, n, include_special=True):
    """C07 on the implementation: for every W, every applicable layout x carrier yields exactly the intended
    calls (as a set; kwargs compared as mappings).  Cases on which a known deviation applies are tagged
    case['deviation'].  Returns (failures, evaluations)."""
    fails, evals = [], 0
    Ws = (special_Ws() if include_special else []) + [gen_W(rng) for _ in range(n)]
    for wi, W in enumerate(Ws):
        for case in cases_of_W(W, rng, f"e{wi}"):
            evals += 1
            want = intended_calls(W)
            try:
                got, mutated = run_impl(case)
            except Exception as e:  # noqa: BLE001
                fails.append({"kind": "predicate", "function": "Config", "case": case, "impl": core.canon_exc(e),
                              "in_domain": case["deviation"] is None,
                              "clause": "Config raised on a well-formed configuration"})
                continue
            if mutated:
                fails.append({"kind": "purity", "function": "Config", "case": case, "impl": got,
                              "clause": "the configuration passed in was modified"})
            if _multiset(got) != _multiset(want):
                fails.append({"kind": "predicate", "function": "Config", "case": case, "impl": got, "intended": want,
                              "in_domain": case["deviation"] is None,
                              "clause": "calls differ from the configured (stream, module, test, parameters, "
                                        "window, region) entries"})
            keys = [(c[0], c[1], c[2], c[4], c[5], json.dumps(c[6])) for c in got]
            per_ctx_dups = len(W) == 1 and len(set(keys)) != len(keys)
            if per_ctx_dups:
                fails.append({"kind": "predicate", "function": "Config", "case": case, "impl": got,
                              "clause": "more than one call for a (stream, module, test)"})
    return fails, evals


class ConfigSpec(ConfigCalls):
    """implementation vs the intended meaning `calls_of W` (the property itself); differs exactly on the
    cases tagged with a deviation"""
    name = "Config_spec"

    def model(self, case):
        return ConfigCalls.spec(self, case)


def sig_deviation(name):
    return lambda f: isinstance(f.get("case"), dict) and f["case"].get("deviation") == name


# known findings (KNOWN_FINDINGS.json signatures)
SIGNATURES = {
    "config_bare_streams_without_parameter_mapping": sig_deviation("depth_bare_streams"),
    "config_bare_module_with_mapping_parameter": sig_deviation("depth_bare_module"),
    "config_region_bare_geometry_ignored": sig_deviation("region_bare_geometry"),
}
