"""Cross-cutting machinery for C01, C02, C15, C16, C17: a registry of all QC-test adapters, and the
properties' relations evaluated directly on the implementation (transformations of cases, pairs of
parameter sets, carrier types, call histories)."""
import copy
import json
from fractions import Fraction as F

import core

SEV = {1: 1, 3: 2, 4: 3, 2: 0, 9: 0}
NOT_EVAL = {2, 9}
NS = 10 ** 9


def unfr(s):
    return None if s is None else F(s)


def registry():
    import fn_atten
    import fn_density
    import fn_flat
    import fn_location
    import fn_rate
    import fns
    reg = [
        ("gross_range_test", fns.GrossRange(), fns.gen_gross),
        ("valid_range_test", fns.ValidRange(), fns.gen_valid),
        ("spike_test", fns.Spike(), fns.gen_spike),
        ("rate_of_change_test", fn_rate.Roc(), fn_rate.gen_roc),
        ("speed_test", fn_rate.Speed(), fn_rate.gen_speed),
        ("location_test", fn_location.Location(), fn_location.gen_location),
        ("density_inversion_test", fn_density.Density(), fn_density.gen_density),
        ("pressure_increasing_test", fn_density.Pressure(), fn_density.gen_pressure),
        ("flat_line_test", fn_flat.FlatLine(), fn_flat.gen_flat),
        ("attenuated_signal_test", fn_atten.Attenuated(), fn_atten.gen_atten),
    ]
    try:
        import fn_clim
        reg.append(("climatology_test", fn_clim.Climatology(), fn_clim.gen_clim))
    except ImportError:
        pass
    return reg


_CASE_CACHE = {}


def domain_cases(name, ad, gen, tier, rng):
    """all in-domain generated cases of a test (cached per tier; generation is deterministic in rng's seed
    only the first time, so callers sample from it with their own rng)"""
    key = (name, tier)
    if key not in _CASE_CACHE:
        g = core.Rng(12345)
        cs = [c for c in gen(tier, g) if ad.in_domain(c)]
        if name in ("location_test",):
            cs = [c for c in cs if c.get("rm") is None or F(c["rm"]) >= 0]
        if name == "rate_of_change_test":
            cs = [c for c in cs if F(c["thr"]) >= 0]
        _CASE_CACHE[key] = cs
    return _CASE_CACHE[key]


def sample(cases, k, rng):
    if len(cases) <= k:
        return list(cases)
    return rng.sample(cases, k)


def flags_of(canon):
    if not canon.startswith("F:"):
        return None
    body = canon[2:]
    if body == "":
        return []
    try:
        return [int(x) for x in body.split(",")]
    except ValueError:
        return None


# ------------------------------------------------------------------ C01: histories

def interleaved_history(reg, tier, rng, per_test):
    """mix calls to all tests, run the whole history twice in different orders, compare"""
    pairs = []
    for name, ad, gen in reg:
        for c in sample(domain_cases(name, ad, gen, tier, rng), per_test, rng):
            pairs.append((name, ad, c))
    order = list(range(len(pairs)))
    rng.shuffle(order)
    first = {}
    fails = []
    for i in order:
        name, ad, c = pairs[i]
        canon, mutated = ad.impl(c)
        first[i] = canon
        if mutated:
            fails.append({"kind": "purity", "function": name, "case": c, "impl": canon,
                          "clause": f"arguments modified by the call: {mutated}"})
        if not canon.startswith("R:") and flags_of(canon) is None:
            fails.append({"kind": "shape", "function": name, "case": c, "impl": canon,
                          "clause": "result is not one plain flag per input element"})
    order2 = list(order)
    rng.shuffle(order2)
    for i in order2:
        name, ad, c = pairs[i]
        canon, _ = ad.impl(c)
        if canon != first[i]:
            fails.append({"kind": "history", "function": name, "case": c, "impl": first[i], "impl_again": canon,
                          "clause": "the same call returned different flags later in the history"})
    return 2 * len(pairs), fails, [{"function": pairs[i][0], "case": pairs[i][2], "impl": first[i]} for i in order[:3]]


def input_length(name, c):
    for k in ("xs", "lon", "rho", "ps"):
        if k in c:
            return len(c[k])
    return None


# ------------------------------------------------------------------ C02: missing values on the implementation

def c02_failures(name, c, canon):
    fl = flags_of(canon)
    if fl is None:
        return []
    out = []

    def bad(i, why):
        out.append({"kind": "predicate", "function": name, "case": c, "impl": canon,
                    "clause": f"position {i}: {why}"})
    n = len(fl)
    if name in ("gross_range_test", "valid_range_test", "rate_of_change_test", "flat_line_test",
                "attenuated_signal_test", "climatology_test"):
        xs = c["xs"] if "xs" in c else c.get("inp")
        for i in range(n):
            if xs[i] is None and fl[i] != 9:
                bad(i, "missing observation not flagged MISSING")
            if xs[i] is not None and fl[i] == 9:
                bad(i, "present observation flagged MISSING")
    elif name == "spike_test":
        xs = c["xs"]
        for i in range(n):
            end = i in (0, n - 1)
            if xs[i] is None and not (fl[i] == 9 or (end and fl[i] == 2)):
                bad(i, "missing observation flagged as evaluated")
            if xs[i] is not None and fl[i] == 9:
                nb = (i > 0 and xs[i - 1] is None) or (i < n - 1 and xs[i + 1] is None)
                if end or not nb:
                    bad(i, "present observation flagged MISSING although both neighbours are present")
    elif name == "density_inversion_test":
        rho, z = c["rho"], c["z"]
        for i in range(n):
            miss = rho[i] is None or z[i] is None
            if miss and not (fl[i] == 9 or (n == 1 and fl[i] == 2)):
                bad(i, "incomplete record flagged as evaluated")
            if not miss and fl[i] == 9:
                if not (i > 0 and (rho[i - 1] is None or z[i - 1] is None)):
                    bad(i, "complete record flagged MISSING although the previous record is complete")
    elif name == "location_test":
        lon, lat = c["lon"], c["lat"]
        for i in range(n):
            both = lon[i] is None and lat[i] is None
            if both and fl[i] != 9:
                bad(i, "position with both coordinates missing not flagged MISSING")
            if not both and fl[i] == 9:
                bad(i, "position flagged MISSING although a coordinate is present")
    elif name == "speed_test":
        lon, lat = c["lon"], c["lat"]
        for i in range(n):
            miss = lon[i] is None or lat[i] is None
            if lon[i] is None and lat[i] is None and not (fl[i] == 9 or (i == 0 and fl[i] == 2)):
                bad(i, "position with both coordinates missing flagged as evaluated")
            if not miss and fl[i] == 9:
                if not (i > 0 and (lon[i - 1] is None or lat[i - 1] is None)):
                    bad(i, "full position flagged MISSING although the previous position is complete")
    return out


# ------------------------------------------------------------------ C16: stricter parameters

def _thr(v):
    return None if v in (None, "absent") else F(v)


def stricter_variant(name, c, rng):
    """-> a case with parameters at least as strict (same data), or None"""
    d = copy.deepcopy(c)
    g = F(rng.choice([0, 1, 2, 8, 32, 64]), 64)
    g2 = F(rng.choice([0, 1, 2, 8, 32, 64]), 64)
    if name == "gross_range_test":
        if len(c["fail"]) != 2 or (c["suspect"] is not None and len(c["suspect"]) != 2):
            return None
        lo, hi = sorted(F(x) for x in c["fail"])
        lo2, hi2 = lo + g, hi - g2
        if lo2 > hi2:
            return None
        if c["suspect"] is None:
            if rng.random() < 0.5:
                s = None
            else:
                a = lo2 + F(rng.randint(0, 64), 64)
                b = hi2 - F(rng.randint(0, 64), 64)
                if a > b:
                    return None
                s = [a, b]
        else:
            a, b = sorted(F(x) for x in c["suspect"])
            a2, b2 = max(a + g, lo2), min(b - g2, hi2)
            if a2 > b2:
                return None
            s = [a2, b2]
        d["fail"] = [core.fr(lo2), core.fr(hi2)]
        d["suspect"] = None if s is None else [core.fr(s[0]), core.fr(s[1])]
        return d
    if name == "valid_range_test":
        step = 1 if c["kind"] == "datetime" else F(1, 64)
        lo, hi = unfr(c["lo"]), unfr(c["hi"])
        k1, k2 = rng.randint(0, 3), rng.randint(0, 3)
        if lo is not None:
            lo = lo + k1 * step
        elif rng.random() < 0.3:
            lo = F(-60)
        if hi is not None:
            hi = hi - k2 * step
        elif rng.random() < 0.3:
            hi = F(60)
        d["lo"], d["hi"] = core.fr(lo), core.fr(hi)
        return d
    if name in ("spike_test",):
        for key in ("st", "ft"):
            v = _thr(c[key])
            if v is None:
                if rng.random() < 0.5:
                    d[key] = core.fr(F(rng.randint(0, 256), 64))
            else:
                d[key] = core.fr(max(F(0), v - g)) if v >= 0 else c[key]
        return d
    if name == "rate_of_change_test":
        d["thr"] = core.fr(max(F(0), F(c["thr"]) - g))
        return d
    if name == "speed_test":
        # thresholds are arbitrary exact floats: halve / keep (stay away from rounding issues)
        d["st"] = core.fr(F(c["st"]) / rng.choice([1, 2])) if F(c["st"]) >= 0 else c["st"]
        d["ft"] = core.fr(F(c["ft"]) / rng.choice([1, 2])) if F(c["ft"]) >= 0 else c["ft"]
        return None if (d["st"] != c["st"] or d["ft"] != c["ft"]) and False else d
    if name == "location_test":
        if c["bbox"] is not None and len(c["bbox"]) != 4:
            return None
        box = [F(-180), F(-90), F(180), F(90)] if c["bbox"] is None else [F(x) for x in c["bbox"]]
        nb = [box[0] + g, box[1] + g2, box[2] - g, box[3] - g2]
        if nb[0] > nb[2] or nb[1] > nb[3]:
            return None
        d["bbox"] = [core.fr(x) for x in nb]
        # range_max: keep (a smaller one could land within rounding of a hop distance)
        return d
    if name == "density_inversion_test":
        for key in ("st", "ft"):
            v = _thr(c[key])
            if v is None:
                if rng.random() < 0.5:
                    d[key] = core.fr(F(rng.randint(-128, 128), 64))
            else:
                d[key] = core.fr(v + g)
        return d
    if name == "flat_line_test":
        st, ft, tol = F(c["st"]), F(c["ft"]), F(c["tol"])
        d["st"] = core.fr(max(F(0), st - rng.choice([0, 1, 2, 60])))
        d["ft"] = core.fr(max(F(0), ft - rng.choice([0, 1, 2, 60])))
        d["tol"] = core.fr(tol + g)
        return d
    if name == "climatology_test":
        # per member: the valid / fail span shrunk inside the old one, or a fail span given where there was none
        # (a member without fail span fails nothing); which points a member applies to is left alone
        changed = False
        for m in d["cfg"]:
            r = rng.random()
            if m["fspan"] is None:
                if r < 0.5:
                    lo, hi = sorted(F(x) for x in m["vspan"])
                    a, b = lo - rng.choice([0, 1, 3, 100]), hi + rng.choice([0, 1, 3, 100])
                    if rng.random() < 0.3:
                        a, b = F(rng.randint(-4, 6)), F(rng.randint(4, 12))       # any fail span is stricter than none
                    m["fspan"] = [core.fr(a), core.fr(b)] if rng.random() < 0.7 else [core.fr(b), core.fr(a)]
                    changed = True
            elif r < 0.5:
                lo, hi = sorted(F(x) for x in m["fspan"])
                lo2, hi2 = lo + g, hi - g2
                if lo2 <= hi2:
                    m["fspan"] = [core.fr(lo2), core.fr(hi2)]
                    changed = True
            if rng.random() < 0.5:
                lo, hi = sorted(F(x) for x in m["vspan"])
                lo2, hi2 = lo + g2, hi - g
                if lo2 <= hi2:
                    m["vspan"] = [core.fr(lo2), core.fr(hi2)]
                    changed = True
        return d if changed else None
    if name == "attenuated_signal_test":
        # larger thresholds are stricter; multiply by 2 to stay far from the spread (generators keep
        # spreads away from thresholds, doubling may land near one: only move in exact grid steps >= 1)
        return None
    return None


def c16_failures(name, ad, c, rng):
    d = stricter_variant(name, c, rng)
    if d is None:
        return 0, []
    a, _ = ad.impl(c)
    b, _ = ad.impl(d)
    fa, fb = flags_of(a), flags_of(b)
    if fa is None or fb is None or len(fa) != len(fb):
        return 1, []
    for i, (x, y) in enumerate(zip(fa, fb)):
        if SEV[x] > SEV[y] or ((x in NOT_EVAL) != (y in NOT_EVAL)):
            return 1, [{"kind": "predicate", "function": name, "case": {"loose": c, "strict": d}, "impl": a,
                        "impl_strict": b,
                        "clause": f"position {i}: flag {x} under the loose parameters became {y} under stricter ones"}]
    return 1, []


# ------------------------------------------------------------------ C17: invariances and locality

def _shift_list(xs, c):
    return [None if x is None else core.fr(F(x) + c) for x in xs]


def _neg_list(xs):
    return [None if x is None else core.fr(-F(x)) for x in xs]


def _exact64(xs):
    """every value of the list is a float64 exactly (a shift must not round: 2^-30 beside 2^27 needs 57 bits)"""
    return all(x is None or F(float(F(x))) == F(x) for x in xs)


def transforms(name, c, rng):
    """-> list of (label, transformed case, how to map the flags: 'same' | 'reverse')"""
    return [t for t in _transforms(name, c, rng)
            if all(_exact64(t[1][k]) for k in ("xs", "rho", "fail", "suspect") if isinstance(t[1].get(k), list))
            and all(_exact64([t[1][k]]) for k in ("lo", "hi") if isinstance(t[1].get(k), str))]


def _transforms(name, c, rng):
    out = []
    cv = F(rng.choice([-320, -64, 16, 48, 640]), 64)
    ct = rng.choice([1, 17, 3600, 86400, 1000003])

    def with_(**kw):
        d = copy.deepcopy(c)
        d.update(kw)
        return d
    if name in ("spike_test", "rate_of_change_test", "flat_line_test", "attenuated_signal_test"):
        out.append(("value shift", with_(xs=_shift_list(c["xs"], cv)), "same"))
        out.append(("negation", with_(xs=_neg_list(c["xs"])), "same"))
    # an offset far above the data's resolution (all exact in float64: values are k/64 of small magnitude):
    # an intermediate result narrowed to single precision, or a tolerance relative to the magnitude, shows here
    big = F(rng.choice([2 ** 24, 2 ** 30 + 1, -(2 ** 33), 101325 * 1024]))
    if name in ("spike_test", "rate_of_change_test", "flat_line_test") or \
            (name == "attenuated_signal_test" and c.get("check") == "range"):
        out.append(("large value shift", with_(xs=_shift_list(c["xs"], big)), "same"))
    if name == "density_inversion_test":
        out.append(("value shift", with_(rho=_shift_list(c["rho"], cv)), "same"))
        out.append(("large value shift", with_(rho=_shift_list(c["rho"], big)), "same"))
    if name == "spike_test":
        out.append(("reversal", with_(xs=list(reversed(c["xs"]))), "reverse"))
    if name in ("rate_of_change_test", "speed_test"):
        out.append(("time shift", with_(ts_ns=[t + ct * NS for t in c["ts_ns"]]), "same"))
    if name == "flat_line_test":
        out.append(("time shift", with_(ts=[t + ct * NS for t in c["ts"]]), "same"))
    if name == "attenuated_signal_test":
        out.append(("time shift", with_(ts=[t + ct for t in c["ts"]]), "same"))
    if name == "gross_range_test" and len(c["fail"]) == 2 and (c["suspect"] is None or len(c["suspect"]) == 2):
        out.append(("joint shift", with_(xs=_shift_list(c["xs"], cv), fail=_shift_list(c["fail"], cv),
                                         suspect=None if c["suspect"] is None else _shift_list(c["suspect"], cv)), "same"))
    if name == "valid_range_test":
        k = cv if c["kind"] == "float" else F(ct)
        out.append(("joint shift", with_(xs=_shift_list(c["xs"], k), lo=core.fr(None if c["lo"] is None else F(c["lo"]) + k),
                                         hi=core.fr(None if c["hi"] is None else F(c["hi"]) + k)), "same"))
    # data and limits moved TOGETHER far from zero (2^20 .. 2^33; all exact in float64): a comparison with a tolerance
    # relative to the magnitude of a limit shows here
    kbig = F(rng.choice([2 ** 20, -(2 ** 20), 2 ** 24, 2 ** 30 + 1, -(2 ** 33)]))
    if name == "gross_range_test" and len(c["fail"]) == 2 and (c["suspect"] is None or len(c["suspect"]) == 2):
        out.append(("large joint shift", with_(xs=_shift_list(c["xs"], kbig), fail=_shift_list(c["fail"], kbig),
                                               suspect=None if c["suspect"] is None else _shift_list(c["suspect"], kbig)), "same"))
    if name == "valid_range_test" and c["kind"] == "float" and not c.get("infinite"):
        out.append(("large joint shift", with_(xs=_shift_list(c["xs"], kbig), lo=core.fr(None if c["lo"] is None else F(c["lo"]) + kbig),
                                               hi=core.fr(None if c["hi"] is None else F(c["hi"]) + kbig)), "same"))
    return out


def neighbourhood(name, c, k, n):
    """positions whose flag may change when observation k changes (None = no locality claim)"""
    if name in ("gross_range_test", "valid_range_test"):
        return {k}
    if name in ("spike_test", "density_inversion_test"):
        return {k - 1, k, k + 1}
    if name in ("rate_of_change_test", "speed_test", "location_test"):
        return {k, k + 1}
    if name == "flat_line_test":
        ts = c["ts"]
        if len(ts) < 2:
            return {k}
        D = F(ts[1] - ts[0], NS)
        if D <= 0:
            return None
        K = int(max(F(c["st"]), F(c["ft"])) // D)
        return set(range(k, k + K + 1))
    if name == "attenuated_signal_test":
        tp = None if c["tp"] in ("absent", None) else c["tp"]
        if not tp:
            return None
        import fn_atten
        ts = fn_atten.secs_of(c)
        return {i for i in range(n) if ts[i] - tp < ts[k] <= ts[i]}
    return None


def perturb(name, c, k, rng):
    d = copy.deepcopy(c)
    alt = [None, core.fr(F(rng.randint(-640, 640), 64))]
    if name in ("gross_range_test", "valid_range_test", "spike_test", "rate_of_change_test", "flat_line_test",
                "attenuated_signal_test"):
        if name == "valid_range_test" and c["kind"] == "datetime":
            alt = [None, core.fr(F(rng.randint(-50, 50)))]
        d["xs"][k] = rng.choice([a for a in alt if a != c["xs"][k]] or alt)
    elif name == "density_inversion_test":
        key = rng.choice(["rho", "z"])
        d[key][k] = rng.choice([a for a in [None, core.fr(F(rng.randint(1, 4)))] if a != c[key][k]] or [None])
    elif name in ("speed_test", "location_test"):
        return None      # a new position needs new geodesic distances; locality is covered by the Coq theorems
    else:
        return None
    return d


def c17_failures(name, ad, c, rng):
    base, _ = ad.impl(c)
    fb = flags_of(base)
    n_eval, fails = 0, []
    if fb is None:
        return 0, []
    for label, d, how in transforms(name, c, rng):
        got, _ = ad.impl(d)
        n_eval += 1
        fg = flags_of(got)
        want = fb if how == "same" else list(reversed(fb))
        if fg != want:
            fails.append({"kind": "predicate", "function": name, "case": {"original": c, "transformed": d},
                          "impl": base, "impl_transformed": got, "clause": f"flags not invariant under {label}"})
    n = len(fb)
    if n:
        k = rng.randrange(n)
        d = perturb(name, c, k, rng)
        nb = neighbourhood(name, c, k, n)
        if d is not None and nb is not None:
            got, _ = ad.impl(d)
            n_eval += 1
            fg = flags_of(got)
            if fg is not None and len(fg) == n:
                for i in range(n):
                    if i not in nb and fg[i] != fb[i]:
                        fails.append({"kind": "predicate", "function": name,
                                      "case": {"original": c, "perturbed": d, "k": k}, "impl": base,
                                      "impl_perturbed": got,
                                      "clause": f"changing observation {k} changed flag {i}, outside the test's neighbourhood"})
                        break
    return n_eval, fails


# ------------------------------------------------------------------ C15: carriers

DATA_KEYS = ("inp", "zinp", "lon", "lat")
DATA_CARRIERS = ["list_none", "list_nan", "tuple_none", "float32", "int64", "masked_nan", "masked_hidden", "series", "dask",
                 "object_none", "series_object", "int16", "int8", "masked_partial", "uint8", "uint16"]
TIME_CARRIERS = ["dt64_s", "dt64_ms", "dt64_us", "pydatetime", "timestamps", "dtindex", "series", "series_utc",
                 "dtindex_utc", "epoch_s_list", "epoch_s_array", "epoch_s_int32", "epoch_s_int64", "epoch_s_uint32",
                 "dtindex_s", "series_s", "dtindex_ms"]
SPAN_KEYS = ("fail_span", "suspect_span", "valid_span", "bbox")


def convert_data(arr, carrier):
    import numpy as np
    import pandas as pd

    if not (isinstance(arr, np.ndarray) and arr.dtype.kind == "f" and arr.ndim == 1):
        return arr, False
    isn = np.isnan(arr)
    if carrier == "list_none":
        return [None if m else float(v) for v, m in zip(arr.tolist(), isn.tolist())], True
    if carrier == "list_nan":
        return arr.tolist(), True
    if carrier == "tuple_none":
        return tuple(None if m else float(v) for v, m in zip(arr.tolist(), isn.tolist())), True
    if carrier == "float32":
        f32 = arr.astype("float32")
        # the SAME logical series: only when every value is a single-precision number
        if not np.array_equal(f32.astype("float64"), arr, equal_nan=True):
            return arr, False
        return f32, True
    if carrier in ("object_none", "series_object"):
        # what np.array([1.0, None, 3.0]) / a DataFrame column with gaps written as None gives: dtype object
        if not isn.any():
            return arr, False
        obj = np.array([None if m else float(v) for v, m in zip(arr.tolist(), isn.tolist())], dtype=object)
        return (obj if carrier == "object_none" else pd.Series(obj, dtype=object)), True
    if carrier in ("uint8", "uint16"):
        # counts in an unsigned array (a difference of two of them must not wrap around)
        lim = 2 ** 8 if carrier == "uint8" else 2 ** 16
        if isn.any() or not np.all(arr == np.floor(arr)) or (arr.size and (np.min(arr) < 0 or np.max(arr) >= lim)):
            return arr, False
        return arr.astype(carrier), True
    if carrier in ("int64", "int32", "int16", "int8", "int_list"):
        lim = {"int16": 2 ** 15, "int8": 2 ** 7}.get(carrier, 2 ** 31)
        if isn.any() or not np.all(arr == np.floor(arr)) or (arr.size and np.max(np.abs(arr)) >= lim):
            return arr, False
        if carrier == "int_list":
            return [int(v) for v in arr.tolist()], True
        return arr.astype(carrier), True
    if carrier == "masked_nan":
        return np.ma.masked_invalid(arr.copy()), True
    if carrier == "masked_partial":
        # a masked array whose mask covers only the FIRST missing value (np.ma.masked_values(raw, fill)): the other
        # missing values are plain NaN beside the mask
        if isn.sum() < 2:
            return arr, False
        mask = np.zeros(arr.shape, dtype=bool)
        mask[int(np.argmax(isn))] = True
        return np.ma.array(arr.copy(), mask=mask), True
    if carrier == "masked_hidden":
        if not isn.any():
            return arr, False
        data = arr.copy()
        data[isn] = 7.0
        return np.ma.array(data, mask=isn), True
    if carrier == "series":
        return pd.Series(arr.copy()), True
    if carrier == "dask":
        import dask.array as da
        return da.from_array(arr.copy(), chunks=2), True
    raise ValueError(carrier)


def convert_time(t, carrier):
    import numpy as np
    import pandas as pd

    if not (isinstance(t, np.ndarray) and t.dtype.kind == "M" and t.ndim == 1):
        return t, False
    ns = t.astype("datetime64[ns]").astype("int64")
    if carrier in ("dt64_s", "dt64_ms", "dt64_us"):
        unit = carrier.split("_")[1]
        per = {"s": 10 ** 9, "ms": 10 ** 6, "us": 10 ** 3}[unit]
        if np.any(ns % per):
            return t, False
        return t.astype(f"datetime64[{unit}]"), True
    if carrier in ("epoch_s_list", "epoch_s_array", "epoch_s_int32", "epoch_s_int64", "epoch_s_uint32"):
        whole = not np.any(ns % 10 ** 9)
        if carrier in ("epoch_s_int32", "epoch_s_int64", "epoch_s_uint32"):
            # whole epoch seconds in an integer array (int32 is the usual netCDF time type)
            secs = ns // 10 ** 9
            dt = carrier.split("_")[2]
            if not whole or (secs.size and (secs.min() < (0 if dt == "uint32" else -2 ** 31) or secs.max() >= 2 ** 31)):
                return t, False
            return secs.astype(dt), True
        if whole:
            secs = (ns // 10 ** 9).tolist()
            return (secs if carrier == "epoch_s_list" else np.array(secs, dtype="float64")), True
        # fractional epoch seconds, when a float holds them exactly (0.5 s, 0.25 s, ms below 2^53 ns ...)
        fl = [float(F(int(v), 10 ** 9)) for v in ns.tolist()]      # (int / 1e9 would round the numerator first)
        if any(F(x) * 10 ** 9 != int(v) for x, v in zip(fl, ns.tolist())):
            return t, False
        return (fl if carrier == "epoch_s_list" else np.array(fl, dtype="float64")), True
    if carrier in ("dtindex_s", "series_s", "dtindex_ms"):
        # pandas >= 2 keeps the unit of its datetime objects: second / millisecond resolution index or Series
        unit = "ms" if carrier.endswith("_ms") else "s"
        per = 10 ** 6 if unit == "ms" else 10 ** 9
        if np.any(ns % per):
            return t, False
        idx_u = pd.DatetimeIndex(t.astype(f"datetime64[{unit}]"))
        return (pd.Series(idx_u) if carrier.startswith("series") else idx_u), True
    if np.any(ns % 1000):
        return t, False
    idx = pd.DatetimeIndex(t)
    if carrier == "pydatetime":
        return [x.to_pydatetime() for x in idx], True
    if carrier == "timestamps":
        return list(idx), True
    if carrier == "dtindex":
        return idx, True
    if carrier == "series":
        return pd.Series(idx), True
    if carrier == "series_utc":
        return pd.Series(idx.tz_localize("UTC")), True
    if carrier == "dtindex_utc":
        return idx.tz_localize("UTC"), True
    raise ValueError(carrier)


def carrier_transform(data_carrier, time_carrier, span_kind):
    applied = {"n": 0}

    def tr(kw):
        for k in DATA_KEYS:
            if k in kw and data_carrier:
                kw[k], ok = convert_data(kw[k], data_carrier)
                applied["n"] += ok
        if "tinp" in kw and time_carrier:
            kw["tinp"], ok = convert_time(kw["tinp"], time_carrier)
            applied["n"] += ok
        if span_kind:
            for k in SPAN_KEYS:
                if k in kw and isinstance(kw[k], (list, tuple)):
                    kw[k] = list(kw[k]) if span_kind == "list" else tuple(kw[k])
                    applied["n"] += 1
        return kw
    return tr, applied


def c15_failures(name, ad, c, rng, full=False, data_only=False, time_only=False, exclude=()):
    """flags under every carrier == flags under the base carrier (float64 ndarray / datetime64[ns])"""
    base, _ = ad.impl(c)
    fails, n_eval = [], 0
    combos = [(dc, None, None) for dc in DATA_CARRIERS] + [(None, tc, None) for tc in TIME_CARRIERS] + \
             [(None, None, "list"), (None, None, "tuple")]
    combos.append((rng.choice(DATA_CARRIERS), rng.choice(TIME_CARRIERS), rng.choice(["list", "tuple"])))
    combos = [cb for cb in combos if cb[0] not in exclude]
    if data_only:
        combos = [(dc, None, None) for dc in DATA_CARRIERS]
    if time_only:
        combos = [(None, tc, None) for tc in TIME_CARRIERS]
    if not full:
        combos = rng.sample(combos, min(8, len(combos)))
    for dc, tc, sk in combos:
        tr, applied = carrier_transform(dc, tc, sk)
        core.KW_TRANSFORM = tr
        try:
            got, _ = ad.impl(c)
        finally:
            core.KW_TRANSFORM = None
        if not applied["n"]:
            continue
        n_eval += 1
        if got != base:
            fails.append({"kind": "predicate", "function": name, "case": c, "impl": base, "impl_carrier": got,
                          "carrier": {"data": dc, "time": tc, "spans": sk},
                          "clause": f"flags differ when the same series is given as data={dc} time={tc} spans={sk}"})
    return n_eval, fails


EPS = F(1, 2 ** 30)


def fine_variant(name, c):
    """-> the case with every limit moved by 2^-30 towards 'stricter' (exact in float64 and in Q, far below
    the resolution of single precision near the data): a value sitting exactly on a limit is then strictly
    beyond it - unless the comparison is carried out in the precision of a narrower carrier.  None: no variant."""
    d = copy.deepcopy(c)

    def mv(v, delta):
        return None if v is None else core.fr(F(v) + delta)
    if name == "gross_range_test":
        if len(c["fail"]) != 2 or (c["suspect"] is not None and len(c["suspect"]) != 2):
            return None
        lo, hi = sorted(F(x) for x in c["fail"])
        if hi - lo < 4 * EPS:
            return None
        d["fail"] = [core.fr(lo + EPS), core.fr(hi - EPS)]
        if c["suspect"] is not None:
            a, b = sorted(F(x) for x in c["suspect"])
            if b - a < 4 * EPS:
                return None
            d["suspect"] = [core.fr(a + EPS), core.fr(b - EPS)]
        return d
    if name == "valid_range_test":
        if c["kind"] != "float":
            return None
        d["lo"], d["hi"] = mv(c["lo"], EPS), mv(c["hi"], -EPS)
        return d
    if name in ("spike_test", "density_inversion_test"):
        sign = -1 if name == "spike_test" else 1
        for key in ("st", "ft"):
            v = _thr(c[key])
            if v is not None and (sign > 0 or v >= EPS):
                d[key] = core.fr(v + sign * EPS)
        return d
    if name == "rate_of_change_test":
        if F(c["thr"]) < EPS:
            return None
        d["thr"] = core.fr(F(c["thr"]) - EPS)
        return d
    if name == "location_test":
        if c["bbox"] is None or len(c["bbox"]) != 4 or "shape_lon" in c:
            return None
        b = [F(x) for x in c["bbox"]]
        if b[2] - b[0] < 4 * EPS or b[3] - b[1] < 4 * EPS:
            return None
        d["bbox"] = [core.fr(b[0] + EPS), core.fr(b[1] + EPS), core.fr(b[2] - EPS), core.fr(b[3] - EPS)]
        return d
    if name == "flat_line_test":
        d["tol"] = core.fr(F(c["tol"]) + EPS)
        return d
    if name == "attenuated_signal_test":
        if c.get("check") != "range":
            return None
        d["st"], d["ft"] = core.fr(F(c["st"]) + EPS), core.fr(F(c["ft"]) + EPS)
        return d
    return None


def integer_series_failures(name, ad, c, also=()):
    """C01 on the implementation: a series of whole numbers may arrive integer-typed (list of ints, int32 / int64
    array); the call must still return, with the flags of the float64 call"""
    base, _ = ad.impl(c)
    fails, n_eval = [], 0
    for dc in ("int_list", "int64", "int32") + tuple(also):
        tr, applied = carrier_transform(dc, None, None)
        core.KW_TRANSFORM = tr
        try:
            got, _ = ad.impl(c)
        finally:
            core.KW_TRANSFORM = None
        if not applied["n"]:
            continue
        n_eval += 1
        if got != base:
            fails.append({"kind": "predicate", "function": name, "case": c, "impl": base, "impl_carrier": got,
                          "carrier": {"data": dc},
                          "clause": f"an integer-typed series ({dc}) does not give the flags of the same numbers as float64"})
    return n_eval, fails


# tests that document N-D support (they flatten their input and reshape the flags); the profile tests
# (density inversion, pressure), attenuated_signal_test and speed_test are one-dimensional by nature
ND_TESTS = ("gross_range_test", "valid_range_test", "spike_test", "rate_of_change_test", "location_test",
            "flat_line_test", "climatology_test")


def nd_layout_failures(name, ad, c):
    """the same series given as a 2-D array (2 x n/2) in C order and in Fortran (column-major) memory order: the
    flags must come back in the input's shape, element for element those of the flattened (C order) series"""
    import numpy as np
    base, _ = ad.impl(c)
    if flags_of(base) is None:
        return 0, []
    fails, n_eval = [], 0
    for layout in ("C", "F"):
        applied = {"n": 0}

        def tr(kw, layout=layout, applied=applied):
            arrs = {k: v for k, v in kw.items() if k in DATA_KEYS + ("tinp",) and isinstance(v, np.ndarray)
                    and not isinstance(v, np.ma.MaskedArray) and v.ndim == 1}
            sizes = {v.size for v in arrs.values()}
            if len(sizes) != 1:
                return kw
            n = sizes.pop()
            if n < 4 or n % 2:
                return kw
            for k, v in arrs.items():
                a = v.reshape(2, n // 2)
                kw[k] = np.asfortranarray(a) if layout == "F" else a
            kw["__expect_shape__"] = (2, n // 2)
            applied["n"] += 1
            return kw
        core.KW_TRANSFORM = tr
        try:
            got, _ = ad.impl(c)
        finally:
            core.KW_TRANSFORM = None
        if not applied["n"]:
            continue
        n_eval += 1
        if got != base:
            fails.append({"kind": "predicate", "function": name, "case": c, "impl": base, "impl_2d": got,
                          "layout": layout,
                          "clause": f"a 2-D input in {layout} memory order does not get, element for element, the flags of the "
                                    "flattened series (in the input's shape)"})
    return n_eval, fails


def nd_layout_block(name, ad, cases, tier, rng):
    """a result block: nd_layout_failures on a sample of the even-length cases of one test"""
    pool = [c for c in cases if (input_length(name, c) or 0) >= 4 and (input_length(name, c) or 1) % 2 == 0]
    fails, n_eval = [], 0
    for c in sample(pool, 40 if tier == "quick" else 400, rng):
        n, f = nd_layout_failures(name, ad, c)
        n_eval += n
        fails += f
    return {"evaluations": n_eval, "distinct_nontrivial": n_eval, "failures": fails, "errors": [], "samples": [],
            "distribution": {f"two_dimensional_inputs_C_and_F_order_{name}": n_eval}}


def layout_block(ad, cases, tier, rng):
    """simple_run block: 2-D inputs in C and Fortran memory order (a flag stays on ITS element)"""
    if ad.name not in ND_TESTS:
        return None
    return nd_layout_block(ad.name, ad, [c for c in cases if ad.in_domain(c)], tier, rng)


def carrier_block(ad, cases, tier, rng):
    """simple_run block: the per-test property on OTHER carriers of the same series (lists with None / NaN, tuples,
    integer and float32 arrays, masked arrays, Series, dask; times as datetime64 units, datetimes, Timestamps,
    indexes, epoch seconds; spans as list / tuple): the flags are those of the float64 / datetime64[ns] call, which
    the run compares with the model.  (A masked array HIDING finite values is left to C15: known finding F13a.)"""
    dom = [c for c in cases if ad.in_domain(c) and (input_length(ad.name, c) or 0) >= 1]
    fails, n_eval = [], 0
    for c in sample(dom, 40 if tier == "quick" else 400, rng):
        n, f = c15_failures(ad.name, ad, c, rng, exclude=("masked_hidden",))
        n_eval += n
        fails += f
    return {"evaluations": n_eval, "distinct_nontrivial": n_eval, "failures": fails, "errors": [], "samples": [],
            "distribution": {f"calls_on_other_carriers_{ad.name}": n_eval}}


def fine_block(ad, cases, tier, rng):
    """simple_run block: limits moved by 2^-30 towards 'stricter' (a value on a limit is then strictly beyond it) with
    the data in NARROW carriers (float32, integers): the comparison must be carried out in double precision, on the
    limits as given - the flags are those of the float64 call"""
    dom = [c for c in cases if ad.in_domain(c) and (input_length(ad.name, c) or 0) >= 1]
    fails, n_eval = [], 0
    for c in sample(dom, 60 if tier == "quick" else 600, rng):
        d = fine_variant(ad.name, c)
        if d is None:
            continue
        base, _ = ad.impl(d)
        for dc in ("float32", "int64", "int16", "uint8"):
            tr, applied = carrier_transform(dc, None, None)
            core.KW_TRANSFORM = tr
            try:
                got, _ = ad.impl(d)
            finally:
                core.KW_TRANSFORM = None
            if not applied["n"]:
                continue
            n_eval += 1
            if got != base:
                fails.append({"kind": "predicate", "function": ad.name, "case": d, "impl": base, "impl_carrier": got,
                              "carrier": {"data": dc},
                              "clause": f"limits 2^-30 beside the data: flags differ when the series is given as {dc}"})
    return {"evaluations": n_eval, "distinct_nontrivial": n_eval, "failures": fails, "errors": [], "samples": [],
            "distribution": {f"fine_limits_on_narrow_carriers_{ad.name}": n_eval}}


def reuse_block(ad, cases, tier, rng):
    """simple_run block: the same calls once with fresh arrays and once, consecutively, with the caller's buffers
    reused in place (a result must depend on the values passed in, not on the identity of the objects)"""
    dom = [c for c in cases if ad.in_domain(c) and (input_length(ad.name, c) or 0) >= 2]
    n, fails, reused = shared_buffer_history([(ad.name, ad, lambda tier, rng, dom=dom: dom)], tier, rng,
                                             60 if tier == "quick" else 600)
    return {"evaluations": n, "distinct_nontrivial": n, "failures": fails, "errors": [], "samples": [],
            "distribution": {f"calls_with_reused_buffers_{ad.name}": reused}}


# ------------------------------------------------------------------ shared driver pieces

ALL_MODELS = ["Generated", "Range", "Spike", "Rate", "Location", "Density", "FlatLine", "Attenuated", "Calendar",
              "Climatology"]


def tie(reg, tier, rng, k, ctx):
    """model/implementation correspondence on a sample of every test's in-domain cases"""
    import adapters
    out = []
    for name, ad, gen in reg:
        cs = sample(domain_cases(name, ad, gen, tier, rng), k, rng)
        out.append((name, ad, cs, adapters.run_adapter(ad, cs, rng, repeat_frac=0.15, with_spec=not ctx["props_ok"])))
    return out


# ------------------------------------------------------------------ C01: parameter OBJECTS reused across calls

def deep_state(obj):
    """bit-level state of a parameter object (all attributes), for the purity comparison"""
    return json.dumps({k: repr(core.snapshot(v)) for k, v in sorted(vars(obj).items())}, sort_keys=True)


def clim_object_history(tier, rng, n_objects):
    """A ClimatologyConfig OBJECT is built once and used for several calls with different series (other
    times, other lengths), interleaved; every answer must equal the answer of a fresh call with the
    documented list-of-dicts configuration, and the object must not be modified by any call."""
    import warnings

    import fn_clim
    from ioos_qc import qartod

    ad = fn_clim.Climatology()
    pool = domain_cases("climatology_test", ad, fn_clim.gen_clim, tier, rng)
    fails, n_eval = [], 0
    for _ in range(n_objects):
        base = rng.choice(pool)
        if not base["cfg"]:
            continue
        with warnings.catch_warnings():
            warnings.simplefilter("ignore")
            try:
                obj = qartod.ClimatologyConfig.convert(ad.config(base))
            except Exception as e:  # noqa: BLE001
                fresh, _ = ad.impl(base)
                if not str(fresh).startswith("R:"):
                    fails.append({"kind": "predicate", "function": "climatology_test", "case": base, "impl": core.canon_exc(e),
                                  "impl_list_of_dicts": fresh,
                                  "clause": "building a ClimatologyConfig object from the members raised although the "
                                            "same members given as a list of dicts are accepted"})
                continue
            state0 = deep_state(obj)
            # series from other cases (other dates, other lengths), same configuration object
            others = [base] + [rng.choice(pool) for _ in range(3)]
            for other in others:
                c = dict(other)
                c["cfg"] = base["cfg"]
                fresh, _ = ad.impl(c)
                kw = {"config": obj,
                      "inp": core.to_float_array([unfr(x) for x in c["xs"]]),
                      "tinp": fn_clim.times_as(c.get("tkind", "ns"), c["ts"]),
                      "zinp": core.to_float_array([unfr(x) for x in c["zs"]])}
                got, mutated = core.call_impl(qartod.climatology_test, kw)
                n_eval += 2
                if got != fresh:
                    fails.append({"kind": "history", "function": "climatology_test", "case": c, "impl": fresh,
                                  "impl_shared_object": got,
                                  "clause": "a ClimatologyConfig object reused across calls gives different flags than a "
                                            "fresh configuration (hidden state in the parameter object)"})
                    break
                if deep_state(obj) != state0 or mutated:
                    fails.append({"kind": "purity", "function": "climatology_test", "case": c, "impl": got,
                                  "clause": "the call modified the caller's ClimatologyConfig object"})
                    break
    return n_eval, fails


# ------------------------------------------------------------------ C01: the caller reuses its buffers

class BufferReuse:
    """KW_TRANSFORM hook: every ndarray argument is passed through a persistent buffer of the same name,
    shape and dtype whose contents are overwritten IN PLACE (what a caller with a rolling real-time
    buffer does).  A library that keys hidden state on object identity, or keeps references to its
    arguments, then sees 'the same object' with new contents."""

    def __init__(self):
        self.buf = {}
        self.reused = 0

    def __call__(self, kw):
        import numpy as np
        for k, v in list(kw.items()):
            if isinstance(v, np.ndarray) and not isinstance(v, np.ma.MaskedArray) and v.ndim == 1:
                key = (k, v.shape, str(v.dtype))
                b = self.buf.get(key)
                if b is None:
                    b = v.copy()
                    self.buf[key] = b
                else:
                    b[...] = v
                    self.reused += 1
                kw[k] = b
            elif isinstance(v, list) and k in DATA_KEYS + ("tinp",):
                key = (k, len(v), "list")
                b = self.buf.get(key)
                if b is None:
                    b = list(v)
                    self.buf[key] = b
                else:
                    b[:] = v
                    self.reused += 1
                kw[k] = b
        return kw


def shared_buffer_history(reg, tier, rng, per_test, pre=None):
    fails, n_eval, reused = [], 0, 0
    hook = BufferReuse()
    calls = []
    for name, ad, gen in reg:
        cs = sample(domain_cases(name, ad, gen, tier, rng), per_test, rng)
        calls += [(name, ad, c) for c in cs]
    # same-length cases close together so that buffers really are reused, tests interleaved
    calls.sort(key=lambda t: (input_length(t[0], t[2]) or 0, rng.random()))
    # pass 1: every call with fresh arrays; pass 2: the same calls, consecutively, with reused buffers
    fresh = [ad.impl(c)[0] for name, ad, c in calls]
    # pre: an optional carrier conversion applied before the buffers are reused (C15: every mutable carrier)
    core.KW_TRANSFORM = hook if pre is None else (lambda kw: hook(pre(kw)))
    try:
        got_all = [ad.impl(c)[0] for name, ad, c in calls]
    finally:
        core.KW_TRANSFORM = None
    n_eval = 2 * len(calls)
    for (name, ad, c), f, got in zip(calls, fresh, got_all):
        if got != f:
            fails.append({"kind": "history", "function": name, "case": c, "impl": f, "impl_reused_buffers": got,
                          "clause": "with the caller's arrays reused in place across calls the test returns different "
                                    "flags than with fresh arrays (hidden state keyed on its arguments)"})
    return n_eval, fails, hook.reused


# ------------------------------------------------------------------ sub-second time axes (C15, C17)

def roc_subsecond_cases(rng, k):
    """rate_of_change cases on irregular axes whose steps are NOT whole seconds (>= 1 s, so the elapsed
    whole seconds are >= 1) with thresholds between the rates for neighbouring second counts"""
    out = []
    for j in range(k):
        n = rng.randint(3, 7)
        # every other case on a quarter-second grid: those instants are floats exactly, so the axis can also be given
        # as fractional epoch seconds (the other carriers of sub-second instants are datetime-like)
        quarter = j % 2 == 0
        t = (1577880000 + rng.randint(0, 50)) * NS + rng.choice([0, 250, 500, 750] if quarter else [0, 100, 250, 500, 750, 900]) * 10 ** 6
        ts = []
        for _ in range(n):
            ts.append(t)
            t += rng.choice([1250, 1500, 1750, 2500, 2750, 3000, 1000] if quarter else
                            [1100, 1200, 1500, 1800, 1900, 2100, 2500, 2900, 3000, 1000]) * 10 ** 6
        xs = [None if rng.random() < 0.1 else core.fr(F(rng.randint(-8, 8) * 4)) for _ in range(n)]
        thr = F(rng.choice([1, 2, 3, 4, 6]))
        # ... or a threshold strictly between |dx| / dt and |dx| / trunc(dt) of some step: the flag then shows whether
        # the elapsed time was truncated to whole seconds (as the test does for every representation of the times)
        mids = []
        for i in range(1, n):
            dt = F(ts[i] - ts[i - 1], NS)
            if xs[i] is not None and xs[i - 1] is not None and dt != int(dt) and F(xs[i]) != F(xs[i - 1]):
                dx = abs(F(xs[i]) - F(xs[i - 1]))
                mids.append((dx / dt + dx / int(dt)) / 2)
        if mids and rng.random() < 0.7:
            thr = rng.choice(mids)
        out.append({"xs": xs, "ts_ns": ts, "kind": "dt64", "thr": core.fr(thr)})
    return out


def roc_time_shift_failures(ad, cases, rng):
    """shifting all timestamps by ANY constant (sub-second ones included) leaves the flags unchanged"""
    fails, n = [], 0
    for c in cases:
        base, _ = ad.impl(c)
        for shift_ms in (200, 350, 500, 999, 1000, 86400123):
            d = copy.deepcopy(c)
            d["ts_ns"] = [t + shift_ms * 10 ** 6 for t in c["ts_ns"]]
            got, _ = ad.impl(d)
            n += 1
            if got != base:
                fails.append({"kind": "predicate", "function": "rate_of_change_test",
                              "case": {"original": c, "shift_ms": shift_ms}, "impl": base, "impl_transformed": got,
                              "clause": "flags not invariant under a shift of all timestamps"})
                break
    return n, fails
