#!/usr/bin/env python3
"""Fail-closed translator: /repo Python AST -> coq/theories/Generated.v.

Extracts *tables* (data, not control flow) that the theorems mention, so that an edit to
one of them in /repo changes the Coq definitions and the proofs are re-checked against
what the source says now.  Any unexpected shape raises TranslateError (exit 2).

Usage: gen_consts.py <repo> <out.v>     (the file is rewritten only when its content changes)
"""
import ast
import hashlib
import sys
from pathlib import Path


class TranslateError(Exception):
    pass


def need(cond, msg):
    if not cond:
        raise TranslateError(msg)


FLAG_NAMES = ["GOOD", "UNKNOWN", "SUSPECT", "FAIL", "MISSING"]


def parse(repo, rel):
    p = Path(repo) / rel
    need(p.exists(), f"missing source file {rel}")
    return ast.parse(p.read_text(), filename=str(p))


def find_class(mod, name):
    for n in mod.body:
        if isinstance(n, ast.ClassDef) and n.name == name:
            return n
    raise TranslateError(f"class {name} not found")


def find_func(mod, name, cls=None):
    body = mod.body if cls is None else find_class(mod, cls).body
    for n in body:
        if isinstance(n, ast.FunctionDef) and n.name == name:
            return n
    raise TranslateError(f"function {name} not found")


def flag_ref(node):
    """QartodFlags.X -> 'X'"""
    need(
        isinstance(node, ast.Attribute)
        and isinstance(node.value, ast.Name)
        and node.value.id in ("QartodFlags", "FLAGS")
        and node.attr in FLAG_NAMES,
        f"expected QartodFlags.<NAME>, got {ast.dump(node)}",
    )
    return node.attr


def const_num(node):
    if isinstance(node, ast.UnaryOp) and isinstance(node.op, ast.USub):
        return -const_num(node.operand)
    need(isinstance(node, ast.Constant) and isinstance(node.value, (int, float)) and not isinstance(node.value, bool),
         f"expected a numeric literal, got {ast.dump(node)}")
    return node.value


def coq_string(s):
    need('"' not in s, "double quote in string literal")
    return '"' + s + '"'


def coq_z(v):
    need(isinstance(v, int), f"expected int, got {v!r}")
    return f"({v})%Z" if v < 0 else f"{v}%Z"


def coq_q(v):
    """python number -> exact Q literal"""
    from fractions import Fraction
    fr = Fraction(v)
    return f"({fr.numerator} # {fr.denominator})"


# ---------------------------------------------------------------- extractors

def flag_codes(qartod):
    cls = find_class(qartod, "QartodFlags")
    out = []
    for n in cls.body:
        if isinstance(n, ast.Expr) and isinstance(n.value, ast.Constant):
            continue  # docstring
        need(isinstance(n, ast.Assign) and len(n.targets) == 1 and isinstance(n.targets[0], ast.Name),
             f"unexpected statement in QartodFlags: {ast.dump(n)}")
        name = n.targets[0].id
        need(name in FLAG_NAMES, f"unknown flag name {name}")
        out.append((name, const_num(n.value)))
    need(sorted(x[0] for x in out) == sorted(FLAG_NAMES), "QartodFlags must define exactly the five flags")
    return out


def priorities(qartod):
    fn = find_func(qartod, "qartod_compare")
    found = None
    for n in ast.walk(fn):
        if isinstance(n, ast.Assign) and len(n.targets) == 1 and isinstance(n.targets[0], ast.Name) \
                and n.targets[0].id == "priorities":
            need(found is None, "priorities assigned twice")
            need(isinstance(n.value, ast.List), "priorities is not a list literal")
            found = [flag_ref(e) for e in n.value.elts]
    need(found is not None, "priorities list not found in qartod_compare")
    # the loops must iterate `for p in priorities: for v in vectors:`
    loops = [n for n in ast.walk(fn) if isinstance(n, ast.For)]
    need(len(loops) == 2, "qartod_compare: expected exactly two for loops")
    outer = [l for l in loops if isinstance(l.iter, ast.Name) and l.iter.id == "priorities"]
    inner = [l for l in loops if isinstance(l.iter, ast.Name) and l.iter.id == "vectors"]
    need(len(outer) == 1 and len(inner) == 1 and inner[0] in outer[0].body,
         "qartod_compare: expected `for p in priorities: for v in vectors:`")
    # ... and the inner body must be `idx = np.where(v == p)[0]; result[idx] = p` (nothing else)
    pv, vv = outer[0].target, inner[0].target
    need(isinstance(pv, ast.Name) and isinstance(vv, ast.Name) and len(outer[0].body) == 1 and len(inner[0].body) == 2
         and not outer[0].orelse and not inner[0].orelse, "qartod_compare: unexpected loop bodies")
    a1, a2 = inner[0].body
    need(isinstance(a1, ast.Assign) and len(a1.targets) == 1 and isinstance(a1.targets[0], ast.Name)
         and ast.dump(a1.value) == ast.dump(ast.parse(f"np.where({vv.id} == {pv.id})[0]", mode="eval").body),
         "qartod_compare: expected `idx = np.where(v == p)[0]`")
    need(isinstance(a2, ast.Assign) and len(a2.targets) == 1 and isinstance(a2.targets[0], ast.Subscript)
         and isinstance(a2.targets[0].value, ast.Name) and a2.targets[0].value.id == "result"
         and isinstance(a2.targets[0].slice, ast.Name) and a2.targets[0].slice.id == a1.targets[0].id
         and isinstance(a2.value, ast.Name) and a2.value.id == pv.id,
         "qartod_compare: expected `result[idx] = p`")
    fills = [n for n in ast.walk(fn) if isinstance(n, ast.Call) and isinstance(n.func, ast.Attribute)
             and n.func.attr == "fill"]
    need(len(fills) == 1 and len(fills[0].args) == 1, "qartod_compare: expected one result.fill(...)")
    return found, flag_ref(fills[0].args[0])


def assign_order(fn):
    """Sequence of flag constants assigned into flag arrays (`x[...] = QartodFlags.F`,
    `.fill(F)`, np.full(.., F)) in source order."""
    out = []

    class V(ast.NodeVisitor):
        def visit_Assign(self, n):
            if isinstance(n.value, ast.Attribute) and isinstance(n.value.value, ast.Name) \
                    and n.value.value.id in ("QartodFlags", "FLAGS") and n.value.attr in FLAG_NAMES:
                if any(isinstance(t, ast.Subscript) for t in n.targets):
                    out.append(n.value.attr)
            self.generic_visit(n)

        def visit_Call(self, n):
            if isinstance(n.func, ast.Name) and n.func.id == "run_test":
                for a in n.args:
                    if isinstance(a, ast.Attribute) and a.attr in FLAG_NAMES:
                        out.append(a.attr)
            if isinstance(n.func, ast.Attribute) and n.func.attr in ("fill", "full"):
                for a in n.args:
                    if isinstance(a, ast.Attribute) and isinstance(a.value, ast.Name) \
                            and a.value.id in ("QartodFlags", "FLAGS") and a.attr in FLAG_NAMES:
                        out.append(a.attr)
            self.generic_visit(n)

    V().visit(fn)
    return out


def func_default(fn, argname):
    args = fn.args.args
    defaults = fn.args.defaults
    off = len(args) - len(defaults)
    for i, a in enumerate(args):
        if a.arg == argname:
            need(i >= off, f"{fn.name}: {argname} has no default")
            return defaults[i - off]
    raise TranslateError(f"{fn.name}: no argument {argname}")


def module_names(mod):
    names = []
    for n in mod.body:
        if isinstance(n, (ast.FunctionDef, ast.ClassDef)):
            names.append(n.name)
    return names


def regex_literals(fn):
    lits = [n.value for n in ast.walk(fn) if isinstance(n, ast.Constant) and isinstance(n.value, str)]
    return lits


def fingerprint(node):
    return hashlib.sha256(ast.dump(node, include_attributes=False).encode()).hexdigest()[:16]



# ---------------------------------------------------------------- flag-assignment skeletons (Skel.v)

CMP_OPS = {ast.Lt: "<", ast.LtE: "<=", ast.Gt: ">", ast.GtE: ">=", ast.Eq: "==", ast.NotEq: "!=",
           ast.Is: "is", ast.IsNot: "isnot"}
FLAG_ARRAY_NAMES = ("flag_arr", "flags")


def sexp(node, inline):
    if isinstance(node, ast.Name):
        if node.id in inline:
            return sexp(inline[node.id], inline)
        return f"(SName {coq_string(node.id)})"
    if isinstance(node, ast.Attribute):
        return f"(SAttr {sexp(node.value, inline)} {coq_string(node.attr)})"
    if isinstance(node, ast.Constant):
        if node.value is None:
            return "SNone"
        if node.value is True or node.value is False:
            return f"(SName {coq_string(str(node.value))})"
        if isinstance(node.value, str):
            return f"(SStr {coq_string(node.value)})"                    # method == "average"
        need(isinstance(node.value, (int, float)) and not isinstance(node.value, bool),
             f"skeleton: unsupported constant {node.value!r}")
        return f"(SNum {coq_q(node.value)})"
    if isinstance(node, ast.UnaryOp) and isinstance(node.op, ast.USub):
        return f"(SNum {coq_q(-const_num(node.operand))})"
    if isinstance(node, ast.Subscript) and isinstance(node.slice, ast.Slice):
        return f"(SSl {slice_kind(node.slice)} {sexp(node.value, inline)})"                          # is_missing[:-1]
    if isinstance(node, ast.Subscript) and isinstance(node.value, ast.Name) and isinstance(node.slice, ast.Constant) \
            and isinstance(node.slice.value, int) and not isinstance(node.slice.value, bool):
        return f"(SAttr (SName {coq_string(node.value.id)}) {coq_string(str(node.slice.value))})"   # valid_span[0]
    if isinstance(node, ast.UnaryOp) and isinstance(node.op, (ast.Invert, ast.Not)):
        return f"(SInv {sexp(node.operand, inline)})"
    if isinstance(node, ast.Compare):
        need(len(node.ops) == 1 and type(node.ops[0]) in CMP_OPS, f"skeleton: unsupported comparison {ast.dump(node)}")
        return f"(SCmp {coq_string(CMP_OPS[type(node.ops[0])])} {sexp(node.left, inline)} {sexp(node.comparators[0], inline)})"
    if isinstance(node, ast.BinOp) and isinstance(node.op, (ast.BitOr, ast.BitAnd)):
        op = "|" if isinstance(node.op, ast.BitOr) else "&"
        return f"(SBin {coq_string(op)} {sexp(node.left, inline)} {sexp(node.right, inline)})"
    if isinstance(node, ast.BoolOp):
        op = "and" if isinstance(node.op, ast.And) else "or"
        out = sexp(node.values[0], inline)
        for v in node.values[1:]:
            out = f"(SBin {coq_string(op)} {out} {sexp(v, inline)})"
        return out
    if isinstance(node, ast.Call) and isinstance(node.func, ast.Name) and node.func.id == "len" \
            and len(node.args) == 1 and isinstance(node.args[0], ast.Name) and not node.keywords:
        return f"(SAttr (SName {coq_string(node.args[0].id)}) \"size\")"     # len(inp) of the flattened input
    if isinstance(node, ast.Call):
        f = node.func
        name = f.attr if isinstance(f, ast.Attribute) else getattr(f, "id", None)
        need(name in ("isnan", "any") and len(node.args) == 1 and not node.keywords,
             f"skeleton: unsupported call {ast.dump(node)}")
        return f"(SCall {coq_string(name)} {sexp(node.args[0], inline)})"
    raise TranslateError(f"skeleton: unsupported expression {ast.dump(node)}")


def slice_kind(sl):
    """`[1:]` -> true, `[:-1]` -> false; anything else is refused"""
    def num(n):
        if n is None:
            return None
        if isinstance(n, ast.UnaryOp) and isinstance(n.op, ast.USub) and isinstance(n.operand, ast.Constant):
            return -n.operand.value
        need(isinstance(n, ast.Constant) and isinstance(n.value, int), f"skeleton: unsupported slice bound {ast.dump(n)}")
        return n.value
    lo, hi, step = num(sl.lower), num(sl.upper), num(sl.step)
    need(step is None, "skeleton: slice with a step")
    if (lo, hi) == (1, None):
        return "true"
    if (lo, hi) == (None, -1):
        return "false"
    raise TranslateError(f"skeleton: unsupported slice [{lo}:{hi}]")


def is_flag_value(node):
    return isinstance(node, ast.Attribute) and isinstance(node.value, ast.Name) \
        and node.value.id in ("QartodFlags", "FLAGS") and node.attr in FLAG_NAMES


def skeleton_stmts(stmts_in, no_inline=False):
    """the sequence of `flag_arr[...] = QartodFlags.X` statements of a block, in source order, each with
    the tests of its enclosing `if`s (and the negated tests of earlier `if ...: return / continue` blocks).
    A test the translator cannot express becomes an OPAQUE guard `@opaque<k>` (a boolean the environment must
    supply) when it only decides whether the rest of the block runs; flag assignments beneath it are refused."""
    steps = []
    inline = {}
    opaque = [0]
    closures = {}          # local functions that assign flags: name -> FunctionDef
    idx_alias = {}         # flag_idx = np.where(<cond>)[0] (+ 1): name -> (cond, shift)

    def where_index(node):
        """np.where(<cond>)[0] -> (cond, 0);  np.where(<cond>)[0] + 1 -> (cond, 1);  else None"""
        shift = 0
        if isinstance(node, ast.BinOp) and isinstance(node.op, ast.Add) and isinstance(node.right, ast.Constant) \
                and node.right.value == 1:
            node, shift = node.left, 1
        if isinstance(node, ast.Subscript) and isinstance(node.slice, ast.Constant) and node.slice.value == 0 \
                and isinstance(node.value, ast.Call) and _call_name(node.value) == "where" \
                and len(node.value.args) == 1 and not node.value.keywords:
            return node.value.args[0], shift
        return None
    inlined_calls = [0]

    def inline_closure(call, guards):
        """run_test(suspect_threshold, QartodFlags.SUSPECT): the flag assignments of the local function, with the
        flag parameter replaced by the argument and every name local to the function suffixed by the call's other
        arguments (`test_results@suspect_threshold`: a boolean array the environment must supply per call)."""
        fd = closures[call.func.id]
        a = fd.args
        need(not (a.vararg or a.kwarg or a.kwonlyargs or a.posonlyargs or a.defaults) and not call.keywords
             and len(call.args) == len(a.args), f"skeleton: unsupported call of {fd.name}, line {call.lineno}")
        bind = {p.arg: v for p, v in zip(a.args, call.args)}
        others = [v for v in call.args if not is_flag_value(v)]
        need(all(isinstance(v, ast.Name) for v in others), f"skeleton: argument of {fd.name} is not a name, line {call.lineno}")
        suffix = "@" + ",".join(v.id for v in others)
        local = {n.id for st in ast.walk(fd) for n in ([st] if isinstance(st, ast.Name) and isinstance(st.ctx, ast.Store) else [])}
        g = "[" + "; ".join(guards) + "]"
        for st in fd.body:
            if isinstance(st, (ast.Expr, ast.Pass)) and not isinstance(getattr(st, "value", None), ast.Call):
                continue                                    # docstring
            if not _has_flag_assign(st):
                need(not isinstance(st, (ast.Return,)), f"skeleton: return inside {fd.name}")
                continue
            need(isinstance(st, ast.Assign) and len(st.targets) == 1, f"skeleton: flag assignment under control flow in {fd.name}, line {st.lineno}")
            tg = st.targets[0]
            need(isinstance(tg, ast.Subscript) and isinstance(tg.value, ast.Name) and tg.value.id in FLAG_ARRAY_NAMES
                 and isinstance(tg.slice, ast.Name) and tg.slice.id in local and tg.slice.id not in bind,
                 f"skeleton: unsupported flag assignment in {fd.name}, line {st.lineno}")
            need(isinstance(st.value, ast.Name) and st.value.id in bind and is_flag_value(bind[st.value.id]),
                 f"skeleton: the flag written by {fd.name} is not its flag argument, line {st.lineno}")
            steps.append(f"SWhere {g} (SName {coq_string(tg.slice.id + suffix)}) {bind[st.value.id].attr}")
        inlined_calls[0] += 1

    def walk(stmts, guards):
        guards = list(guards)
        for st in stmts:
            if isinstance(st, ast.FunctionDef) and _has_flag_assign(st):
                need(not no_inline, f"skeleton: nested function with flag assignments inside a loop, line {st.lineno}")
                closures[st.name] = st
                continue
            if isinstance(st, ast.Expr) and isinstance(st.value, ast.Call) and isinstance(st.value.func, ast.Name) \
                    and st.value.func.id in closures:
                inline_closure(st.value, guards)
                continue
            if isinstance(st, ast.Assign) and len(st.targets) == 1:
                tg = st.targets[0]
                if isinstance(tg, ast.Subscript) and isinstance(tg.value, ast.Name) and tg.value.id in FLAG_ARRAY_NAMES \
                        and is_flag_value(st.value):
                    g = "[" + "; ".join(guards) + "]"
                    sl = tg.slice
                    if isinstance(sl, ast.Name) and sl.id in idx_alias:
                        cond, shift = idx_alias[sl.id]                 # flags[np.where(c)[0] + 1] = F
                        steps.append(f"SWhereSl {g} true {sexp(cond, inline)} {st.value.attr}" if shift
                                     else f"SWhere {g} {sexp(cond, inline)} {st.value.attr}")
                    elif isinstance(sl, ast.Constant) and isinstance(sl.value, int):
                        steps.append(f"SAt {g} {coq_z(sl.value)} {st.value.attr}")
                    elif isinstance(sl, ast.UnaryOp) and isinstance(sl.op, ast.USub) and isinstance(sl.operand, ast.Constant):
                        steps.append(f"SAt {g} {coq_z(-sl.operand.value)} {st.value.attr}")
                    else:
                        steps.append(f"SWhere {g} {sexp(sl, inline)} {st.value.attr}")
                elif isinstance(tg, ast.Subscript) and isinstance(tg.value, ast.Subscript) \
                        and isinstance(tg.value.value, ast.Name) and tg.value.value.id in FLAG_ARRAY_NAMES \
                        and is_flag_value(st.value):
                    need(isinstance(tg.value.slice, ast.Slice), f"skeleton: unsupported flag view, line {st.lineno}")
                    g = "[" + "; ".join(guards) + "]"
                    steps.append(f"SWhereSl {g} {slice_kind(tg.value.slice)} {sexp(tg.slice, inline)} {st.value.attr}")
                elif isinstance(tg, ast.Name) and where_index(st.value) is not None:
                    idx_alias[tg.id] = where_index(st.value)
                elif not no_inline and isinstance(tg, ast.Name) and isinstance(st.value, (ast.Compare, ast.BinOp)) \
                        and (isinstance(st.value, ast.Compare) or isinstance(st.value.op, (ast.BitOr, ast.BitAnd))):
                    inline[tg.id] = st.value          # mloc = lon.mask & lat.mask
                elif isinstance(tg, ast.Name) and tg.id in idx_alias:
                    raise TranslateError(f"skeleton: index array {tg.id} reassigned, line {st.lineno}")
            elif isinstance(st, ast.If):
                t = sexp(st.test, inline) if _translatable(st.test, inline) else None
                leaves = bool(st.body) and isinstance(st.body[-1], (ast.Return, ast.Continue, ast.Break)) and not st.orelse
                if t is None:
                    need(not _has_flag_assign(st), f"skeleton: flag assignment under an untranslatable guard, line {st.lineno}")
                    if leaves:
                        opaque[0] += 1
                        guards.append(f"(SInv (SName {coq_string('@opaque' + str(opaque[0]))}))")
                    continue
                walk(st.body, guards + [t])
                walk(st.orelse, guards + [f"(SInv {t})"])
                if leaves:
                    guards.append(f"(SInv {t})")       # the rest of the block runs only if we did not leave it
            elif isinstance(st, ast.With):
                walk(st.body, guards)
            elif isinstance(st, (ast.For, ast.While, ast.Try, ast.FunctionDef)):
                need(not _has_flag_assign(st), f"skeleton: flag assignment inside a loop / try / nested function, line {st.lineno}")
    walk(stmts_in, [])
    if closures:
        # every use of a flag-assigning local function must be one of the statement-level calls inlined above
        uses = sum(1 for st in stmts_in for n in ast.walk(st)
                   if isinstance(n, ast.Name) and isinstance(n.ctx, ast.Load) and n.id in closures)
        need(uses == inlined_calls[0], "skeleton: a flag-assigning local function is used other than by a plain call statement")
    return steps


def skeleton(fn):
    return skeleton_stmts(fn.body)


def skeleton_loop(fn):
    """a function whose flag assignments sit before, inside and after ONE top-level `for` loop:
    -> (steps before, steps of one iteration, steps after)"""
    loops = [st for st in fn.body if isinstance(st, ast.For) and _has_flag_assign(st)]
    need(len(loops) == 1, f"skeleton: expected exactly one top-level loop with flag assignments, found {len(loops)}")
    k = fn.body.index(loops[0])
    need(not loops[0].orelse, "skeleton: for ... else")
    return (skeleton_stmts(fn.body[:k]), skeleton_stmts(loops[0].body, no_inline=True), skeleton_stmts(fn.body[k + 1:]))


def _translatable(node, inline):
    try:
        sexp(node, inline)
        return True
    except TranslateError:
        return False


def _has_flag_assign(node):
    for n in ast.walk(node):
        if isinstance(n, ast.Assign) and len(n.targets) == 1 and isinstance(n.targets[0], ast.Subscript):
            base = n.targets[0].value
            while isinstance(base, ast.Subscript):
                base = base.value
            if isinstance(base, ast.Name) and base.id in FLAG_ARRAY_NAMES:
                return True
    return False


# ---------------------------------------------------------------- array programs (Arr.v)

FLOAT_DTYPES_OK = ("float64", "float", "double")      # anything else (e.g. "f", float32) is refused: fail-closed
ARR_UNARY = {"abs": "abs", "absolute": "abs", "sign": "sign", "diff": "diff", "masked_invalid": "masked_invalid"}
ARR_BIN = {ast.Add: "+", ast.Sub: "-", ast.Mult: "*", ast.Div: "/"}


def _call_name(node):
    f = node.func
    return f.attr if isinstance(f, ast.Attribute) else getattr(f, "id", None)


def _is_num(node):
    try:
        const_num(node)
        return True
    except TranslateError:
        return False


def sbound(n):
    if n is None:
        return "None"
    v = const_num(n)
    need(isinstance(v, int), f"array program: non-integer slice bound {v!r}")
    return f"(Some (FromEnd {-v}%nat))" if v < 0 else f"(Some (FromStart {v}%nat))"


def slice2(sl):
    need(isinstance(sl, ast.Slice) and sl.step is None, "array program: unsupported subscript")
    return f"{sbound(sl.lower)} {sbound(sl.upper)}"


def _dtype_ok(call):
    """np.ma.zeros(x.size, dtype=...) : only double precision is accepted"""
    for kw in call.keywords:
        need(kw.arg == "dtype", f"array program: unexpected keyword {kw.arg} in zeros()")
        v = kw.value
        name = v.value if isinstance(v, ast.Constant) else (v.attr if isinstance(v, ast.Attribute) else getattr(v, "id", None))
        need(name in FLOAT_DTYPES_OK, f"array program: zeros() with dtype {name!r} is not double precision")
    need(len(call.args) == 1 and isinstance(call.args[0], ast.Attribute) and call.args[0].attr == "size",
         "array program: zeros() must be sized by <array>.size")


def _diff_secs(node):
    """np.diff(t).astype("timedelta64[s]").astype(float) -> t, else None"""
    if not (isinstance(node, ast.Call) and _call_name(node) == "astype" and len(node.args) == 1
            and isinstance(node.args[0], ast.Name) and node.args[0].id == "float"):
        return None
    inner = node.func.value
    if not (isinstance(inner, ast.Call) and _call_name(inner) == "astype" and len(inner.args) == 1
            and isinstance(inner.args[0], ast.Constant) and inner.args[0].value == "timedelta64[s]"):
        return None
    d = inner.func.value
    if isinstance(d, ast.Call) and _call_name(d) == "diff" and len(d.args) == 1 and isinstance(d.args[0], ast.Name):
        return d.args[0].id
    return None


def aexp(node):
    if isinstance(node, ast.Name):
        return f"(AVar {coq_string(node.id)})"
    if isinstance(node, ast.Subscript):
        return f"(ASl {slice2(node.slice)} {aexp(node.value)})"
    if isinstance(node, ast.BinOp) and type(node.op) in ARR_BIN:
        op = coq_string(ARR_BIN[type(node.op)])
        if _is_num(node.right):
            return f"(ABinC {op} {aexp(node.left)} {coq_q(const_num(node.right))})"
        return f"(ABin {op} {aexp(node.left)} {aexp(node.right)})"
    if isinstance(node, ast.Call):
        t = _diff_secs(node)
        if t is not None:
            return f"(ADiffSecs {coq_string(t)})"
        name = _call_name(node)
        if name == "zeros":
            _dtype_ok(node)
            return "AZeros"
        if name == "minimum":
            need(len(node.args) == 2 and not node.keywords, "array program: minimum() arity")
            return f"(ABin \"minimum\" {aexp(node.args[0])} {aexp(node.args[1])})"
        if name in ARR_UNARY:
            need(len(node.args) == 1 and not node.keywords, f"array program: {name}() arity")
            return f"(AUn {coq_string(ARR_UNARY[name])} {aexp(node.args[0])})"
    raise TranslateError(f"array program: unsupported expression {ast.dump(node)[:200]}")


def acond(node):
    need(isinstance(node, ast.Compare) and len(node.ops) == 1 and type(node.ops[0]) in CMP_OPS and _is_num(node.comparators[0]),
         f"array program: unsupported condition {ast.dump(node)[:200]}")
    return f"(ACmp {coq_string(CMP_OPS[type(node.ops[0])])} {aexp(node.left)} {coq_q(const_num(node.comparators[0]))})"


def array_program(fn, targets):
    """the statements of `fn` that assign to one of the float arrays `targets`, in source order, with their guards"""
    prog = []

    def walk(stmts, guards):
        guards = list(guards)
        for st in stmts:
            if isinstance(st, ast.Assign) and len(st.targets) == 1:
                tg = st.targets[0]
                g = "[" + "; ".join(guards) + "]"
                if isinstance(tg, ast.Name) and tg.id in targets:
                    prog.append(f"AAssign {g} {coq_string(tg.id)} {aexp(st.value)}")
                elif isinstance(tg, ast.Subscript) and isinstance(tg.value, ast.Name) and tg.value.id in targets:
                    prog.append(f"ASetSl {g} {coq_string(tg.value.id)} {slice2(tg.slice)} {aexp(st.value)}")
                elif isinstance(tg, ast.Subscript) and isinstance(tg.value, ast.Subscript) \
                        and isinstance(tg.value.value, ast.Name) and tg.value.value.id in targets:
                    prog.append(f"ASetSlWhere {g} {coq_string(tg.value.value.id)} {slice2(tg.value.slice)} "
                                f"{acond(tg.slice)} {coq_q(const_num(st.value))}")
                else:
                    base = tg
                    while isinstance(base, (ast.Subscript, ast.Attribute)):
                        base = base.value
                    need(not (isinstance(base, ast.Name) and base.id in targets),
                         f"array program: unsupported assignment to a tracked array, line {st.lineno}")
            elif isinstance(st, (ast.AugAssign, ast.AnnAssign)):
                for n in ast.walk(st.target):
                    need(not (isinstance(n, ast.Name) and n.id in targets),
                         f"array program: augmented assignment to a tracked array, line {st.lineno}")
            elif isinstance(st, ast.If):
                t = sexp(st.test, {}) if _translatable(st.test, {}) else None
                if t is None:
                    need(not _assigns_to(st, targets), f"array program: tracked array assigned under an untranslatable guard, line {st.lineno}")
                    continue
                walk(st.body, guards + [t])
                walk(st.orelse, guards + [f"(SInv {t})"])
                if st.body and isinstance(st.body[-1], ast.Return) and not st.orelse:
                    guards.append(f"(SInv {t})")
            elif isinstance(st, ast.With):
                walk(st.body, guards)
            elif isinstance(st, (ast.For, ast.While, ast.Try, ast.FunctionDef)):
                need(not _assigns_to(st, targets), f"array program: tracked array assigned inside a loop / try / nested function, line {st.lineno}")
    walk(fn.body, [])
    return prog


def _assigns_to(node, targets):
    for n in ast.walk(node):
        if isinstance(n, (ast.Assign, ast.AugAssign)):
            tgs = n.targets if isinstance(n, ast.Assign) else [n.target]
            for t in tgs:
                while isinstance(t, (ast.Subscript, ast.Attribute)):
                    t = t.value
                if isinstance(t, ast.Name) and t.id in targets:
                    return True
    return False


def flist(names):
    return "[" + "; ".join(names) + "]"


def generate(repo):
    """-> (text of Generated.v, [(item, error message)]).  Every definition is translated on its own: an item the
    translator can no longer read is LEFT OUT (with a comment in its place), so that exactly the Coq files that
    need it stop compiling, and the other definitions are still regenerated from the current source."""
    errors = []

    def load(rel):
        try:
            return parse(repo, rel)
        except (TranslateError, SyntaxError, OSError) as e:
            errors.append((rel, f"source does not parse: {e}"))
            return None
    qartod = load("ioos_qc/qartod.py")
    argo = load("ioos_qc/argo.py")
    axds = load("ioos_qc/axds.py")
    utils = load("ioos_qc/utils.py")
    config = load("ioos_qc/config.py")
    fx = load("ioos_qc/config_creator/fx_parser.py")
    cc = load("ioos_qc/config_creator/config_creator.py")

    L = []
    w = L.append

    def item(name, fn):
        try:
            out = fn()
            for line in (out if isinstance(out, list) else [out]):
                w(line)
        except TranslateError as e:
            errors.append((name, str(e)))
            w(f"(* TRANSLATE-ERROR: {name} could not be generated from the current source *)")
        except (AttributeError, TypeError, KeyError, IndexError, ValueError) as e:      # a module that did not parse, an unexpected node
            errors.append((name, f"{type(e).__name__}: {e}"))
            w(f"(* TRANSLATE-ERROR: {name} could not be generated from the current source *)")

    def fn_of(mod, name, cls=None):
        need(mod is not None, "module did not parse")
        return find_func(mod, name, cls)

    w("(* GENERATED by tools/gen_consts.py from /repo — do not edit. *)")
    w("From IoosQc Require Import Base Skel Arr.")
    w("From Coq Require Import String.")
    w("Open Scope string_scope.")
    w("")
    item("flag_codes", lambda: "Definition flag_codes : list (flag * Z) := ["
         + "; ".join(f"({n}, {coq_z(v)})" for n, v in flag_codes(qartod)) + "].")

    def _prios():
        prios, fill = priorities(qartod)
        return [f"Definition priorities : list flag := {flist(prios)}.", f"Definition compare_fill : flag := {fill}."]
    item("priorities", _prios)
    w("")
    # order of flag assignments per test
    tests = [
        ("qartod", "location_test"), ("qartod", "gross_range_test"), ("qartod", "spike_test"),
        ("qartod", "rate_of_change_test"), ("qartod", "flat_line_test"), ("qartod", "attenuated_signal_test"),
        ("qartod", "density_inversion_test"), ("argo", "pressure_increasing_test"), ("argo", "speed_test"),
        ("axds", "valid_range_test"),
    ]
    mods = {"qartod": qartod, "argo": argo, "axds": axds}
    for mn, name in tests:
        item(f"assign_order_{name}", lambda mn=mn, name=name:
             f"Definition assign_order_{name} : list flag := {flist(assign_order(fn_of(mods[mn], name)))}.")
    item("assign_order_climatology_check", lambda: "Definition assign_order_climatology_check : list flag := "
         f"{flist(assign_order(fn_of(qartod, 'check', 'ClimatologyConfig')))}.")
    w("")

    # defaults
    def _bbox():
        bbox = func_default(fn_of(qartod, "location_test"), "bbox")
        need(isinstance(bbox, ast.Tuple) and len(bbox.elts) == 4, "location_test bbox default must be a 4-tuple")
        return "Definition default_bbox : list Q := [" + "; ".join(coq_q(const_num(e)) for e in bbox.elts) + "]."
    item("default_bbox", _bbox)
    item("flat_line_default_tolerance", lambda: "Definition flat_line_default_tolerance : Q := "
         f"{coq_q(const_num(func_default(fn_of(qartod, 'flat_line_test'), 'tolerance')))}.")

    def _sm():
        sm = func_default(fn_of(qartod, "spike_test"), "method")
        need(isinstance(sm, ast.Constant) and isinstance(sm.value, str), "spike_test method default")
        return f"Definition spike_default_method : string := {coq_string(sm.value)}."
    item("spike_default_method", _sm)

    def _ct():
        ct = func_default(fn_of(qartod, "attenuated_signal_test"), "check_type")
        need(isinstance(ct, ast.Constant) and isinstance(ct.value, str), "attenuated check_type default")
        return f"Definition attenuated_default_check_type : string := {coq_string(ct.value)}."
    item("attenuated_default_check_type", _ct)

    def _incl():
        vr = fn_of(axds, "valid_range_test")
        si, ei = func_default(vr, "start_inclusive"), func_default(vr, "end_inclusive")
        need(all(isinstance(x, ast.Constant) and isinstance(x.value, bool) for x in (si, ei)), "valid_range inclusivity defaults")
        return [f"Definition valid_range_default_start_inclusive : bool := {str(si.value).lower()}.",
                f"Definition valid_range_default_end_inclusive : bool := {str(ei.value).lower()}."]
    item("valid_range_default_inclusive", _incl)

    # WEEK_PERIODS, NOTEVAL
    def _week():
        need(qartod is not None, "module did not parse")
        out = []
        for n in qartod.body:
            if isinstance(n, ast.Assign) and isinstance(n.targets[0], ast.Name):
                if n.targets[0].id == "WEEK_PERIODS":
                    need(isinstance(n.value, ast.List), "WEEK_PERIODS must be a list")
                    out.append("Definition week_periods : list string := ["
                               + "; ".join(coq_string(e.value) for e in n.value.elts) + "].")
                if n.targets[0].id == "NOTEVAL_VALUE":
                    out.append(f"Definition noteval_value : flag := {flag_ref(n.value)}.")
        need(len(out) == 2, "WEEK_PERIODS / NOTEVAL_VALUE not found")
        return out
    item("week_periods_noteval", _week)
    w("")

    # cf_safe_name regex literals
    def _cf():
        lits = [x for x in regex_literals(fn_of(utils, "cf_safe_name")) if x.startswith("^[") or x.startswith("[^")]
        need(len(lits) == 2, f"cf_safe_name: expected two regex literals, got {lits}")
        return "Definition cf_regex_literals : list string := [" + "; ".join(coq_string(x) for x in lits) + "]."
    item("cf_regex_literals", _cf)

    # Config layout dispatch
    def _layout():
        init = fn_of(config, "__init__", "Config")
        keys = []
        depth = None
        for n in ast.walk(init):
            if isinstance(n, ast.Compare) and len(n.ops) == 1:
                if isinstance(n.ops[0], ast.In) and isinstance(n.left, ast.Constant) and isinstance(n.left.value, str):
                    keys.append(n.left.value)
                if isinstance(n.ops[0], ast.GtE) and isinstance(n.left, ast.Call) \
                        and isinstance(n.left.func, ast.Name) and n.left.func.id == "dict_depth":
                    depth = const_num(n.comparators[0])
        need(depth is not None, "Config.__init__: dict_depth(...) >= N not found")
        dsk = func_default(init, "default_stream_key")
        return ["Definition layout_keys : list string := [" + "; ".join(coq_string(k) for k in keys) + "].",
                f"Definition depth_threshold : nat := {depth}%nat.",
                f"Definition default_stream_key : string := {coq_string(dsk.value)}."]
    item("config_layout", _layout)
    w("")
    for modname in ("qartod", "argo", "axds"):
        def _known(modname=modname):
            need(mods[modname] is not None, "module did not parse")
            return (f"Definition known_{modname} : list string := ["
                    + "; ".join(coq_string(x) for x in module_names(mods[modname])) + "].")
        item(f"known_{modname}", _known)
    w("")
    # flag-assignment skeletons of the straight-line tests (meaning: Skel.run_steps; tied to the hand-written
    # models by SkelP_*.v)
    for mn, name in [("qartod", "gross_range_test"), ("qartod", "spike_test"), ("qartod", "rate_of_change_test"),
                     ("qartod", "location_test"), ("qartod", "attenuated_signal_test"),
                     ("argo", "speed_test"), ("axds", "valid_range_test"), ("qartod", "density_inversion_test"),
                     ("qartod", "flat_line_test"), ("argo", "pressure_increasing_test")]:
        def _skel(mn=mn, name=name):
            st = skeleton(fn_of(mods[mn], name))
            need(st, f"skeleton of {name} is empty")
            return [f"Definition skel_{name} : list sstep := [", ";\n".join("  " + x for x in st), "]."]
        item(f"skel_{name}", _skel)
    def _skel_clim():
        pre, body, post = skeleton_loop(fn_of(qartod, "check", "ClimatologyConfig"))
        need(pre and body and post, "skeleton of ClimatologyConfig.check: an empty part")
        out = []
        for nm, st in (("pre", pre), ("member", body), ("post", post)):
            out += [f"Definition skel_climatology_check_{nm} : list sstep := [", ";\n".join("  " + x for x in st), "]."]
        return out
    item("skel_climatology_check", _skel_clim)
    w("")
    # array programs: the computation of the intermediate float arrays (meaning: Arr.run_prog; tied to the
    # hand-written models by ArrP_*.v)
    for mn, name, targets in [("qartod", "spike_test", ("ref", "diff")), ("qartod", "rate_of_change_test", ("roc",)),
                              ("qartod", "density_inversion_test", ("delta",)), ("argo", "speed_test", ("speed",))]:
        def _prog(mn=mn, name=name, targets=targets):
            pr = array_program(fn_of(mods[mn], name), targets)
            need(pr, f"array program of {name} is empty")
            return [f"Definition prog_{name} : list astmt := [", ";\n".join("  " + x for x in pr), "]."]
        item(f"prog_{name}", _prog)
    w("")

    # fx parser tables
    def _opn():
        need(fx is not None, "module did not parse")
        opn = None
        for n in fx.body:
            if isinstance(n, ast.Assign) and isinstance(n.targets[0], ast.Name) and n.targets[0].id == "opn":
                need(isinstance(n.value, ast.Dict), "opn must be a dict literal")
                opn = []
                for k, v in zip(n.value.keys, n.value.values):
                    need(isinstance(k, ast.Constant) and isinstance(v, ast.Attribute), "opn entry shape")
                    opn.append((k.value, v.attr))
        need(opn is not None, "fx_parser.opn not found")
        return ("Definition fx_opn : list (string * string) := ["
                + "; ".join(f"({coq_string(k)}, {coq_string(v)})" for k, v in opn) + "].")
    item("fx_opn", _opn)

    def _allowed():
        qvc = find_class(cc, "QcVariableConfig")
        out = []
        for n in qvc.body:
            if isinstance(n, ast.Assign) and isinstance(n.targets[0], ast.Name) \
                    and n.targets[0].id.startswith("allowed_"):
                need(isinstance(n.value, (ast.List, ast.Tuple)), f"{n.targets[0].id} must be a list literal")
                out.append(f"Definition fx_{n.targets[0].id} : list string := ["
                           + "; ".join(coq_string(e.value) for e in n.value.elts) + "].")
        need(out, "QcVariableConfig.allowed_* not found")
        return out
    item("fx_allowed", _allowed)
    w("")
    # fingerprints (scheduling only, never used in theorems): returned separately
    fps = {}
    for mn, name in tests:
        try:
            fps[name] = fingerprint(find_func(mods[mn], name))
        except Exception:  # noqa: BLE001
            fps[name] = None
    try:
        fps["qartod_compare"] = fingerprint(find_func(qartod, "qartod_compare"))
    except Exception:  # noqa: BLE001
        fps["qartod_compare"] = None
    generate.fingerprints = fps
    return "\n".join(L) + "\n", errors


def main():
    import json
    repo, out = sys.argv[1], Path(sys.argv[2])
    text, errors = generate(repo)
    if not out.exists() or out.read_text() != text:
        out.write_text(text)
        print(f"Generated.v rewritten ({len(text)} bytes)")
    else:
        print("Generated.v unchanged")
    build = out.parent.parent.parent / "build"
    build.mkdir(exist_ok=True)
    (build / "fingerprints.json").write_text(json.dumps(generate.fingerprints, indent=1))
    (build / "translate_errors.json").write_text(json.dumps(errors, indent=1))
    for name, msg in errors:
        print(f"TRANSLATE-ERROR: {name}: {msg}")
    sys.exit(3 if errors else 0)


if __name__ == "__main__":
    main()
