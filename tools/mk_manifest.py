#!/usr/bin/env python3
"""Regenerates /verif/MANIFEST.json from the table below (claimed properties) and
properties.jsonl (everything else is listed under not_applicable with the reason)."""
import json
from pathlib import Path

V = Path(__file__).resolve().parent.parent

COMMON_NOTE = ("Trusted: Coq 8.16.1 kernel (vm_compute used, native_compute not used); no axioms under any property theorem "
               "(each prints 'Closed under the global context', audited on every run); tools/gen_consts.py (tables, flag "
               "skeletons and array programs -> Generated.v, fail-closed per definition); the correspondence harness "
               "(generators on dyadic grids where float64 == Q, canonicalisation); numpy/pandas runtime semantics are "
               "modelled as executable Gallina and validated by the correspondence, not verified. Support theorems "
               "FloatExact.v (float64 round-to-nearest-even is exact on the grid for the additive intermediates; = Flocq's "
               "b64_plus/b64_minus) depend on the standard library's real-number axioms (sig_not_dec, sig_forall_dec, "
               "functional_extensionality_dep, classic) and on nothing else.")

CLAIMED = {
    "C01": dict(
        text="Coq theorems: for every length and missing placement and all valid parameters each of the 11 test models returns (never raises) exactly one flag per input element (corollaries of the per-test refinement theorems); flags are one of five by typing with injective codes read from the source; the abstract machine the harness ties the code to is stateless (history theorem). Purity and history independence of the IMPLEMENTATION are decided by the harness: bit-level snapshots of all arguments around every call, repeats inside shuffled per-test histories and one interleaved history across all tests run twice in different orders. Partial: aliasing / hidden state cannot be exhibited by a Gallina model.",
        design_ref="DESIGN.md §8 C01",
        technique="Coq proof (totality corollaries of the refinements, stateless history machine) + purity/history correspondence",
    ),
    "C02": dict(
        text="Coq theorems per test (all lengths, all 2^n placements of missing values via the quantifier over lists, all parameters and every climatology member shape): a missing observation is flagged MISSING, or UNKNOWN only at positions where the test is undefined (spike end points, first speed point, single density record); a present observation is MISSING only when the neighbour / depth / position it is judged against is missing. Tied by the per-test correspondence plus the property evaluated directly on the implementation's flags. Two genuine defects found here were repaired (F4 climatology, F5 flat line short series).",
        design_ref="DESIGN.md §8 C02",
        technique="Coq proof (per-point missing lemmas on the specifications that the models refine) + correspondence",
    ),
    "C15": dict(
        text="Coq theorems: the tests' normalisation is the identity on every supported carrier (list/tuple with None or NaN, ndarray of any real dtype, Series, dask, masked array with NaN under the mask) and mapdates yields the denoted instants for every time carrier, hence any function of the normalised inputs returns equal flags for equal logical series; a masked array hiding finite values is refuted (known finding F13a). The real conversion code is tied by re-running every test on every carrier type against the base run that is itself compared with the Coq model. Partial: numpy/pandas/dask conversions are modelled, not verified.",
        design_ref="DESIGN.md §8 C15",
        technique="Coq proof (normalise = denote on supported carriers) + carrier-pair correspondence on all tests",
    ),
    "C16": dict(
        text="Coq theorems, one per thresholded test, for all series and all ordered pairs of valid parameter sets: with spans/box nested, spike/rate/speed/hop thresholds not larger (or added), flat-line durations not longer and tolerance not smaller, attenuation and density thresholds not smaller (or added), no flag becomes less severe in GOOD<SUSPECT<FAIL and the UNKNOWN/MISSING positions are unchanged; adding a suspect threshold never downgrades FAIL. Tied by the per-test correspondence and by evaluating the relation on the implementation for generated (loose, strict) pairs. Found F7 (spike threshold 0), repaired.",
        design_ref="DESIGN.md §8 C16",
        technique="Coq proof (order reasoning on the per-point decision lists; window-inclusion monotonicity for flat line) + pairwise relation on the implementation",
    ),
    "C17": dict(
        text="Coq theorems over Q and Z (exact arithmetic): value shift and negation invariance (spike, rate, flat line, attenuated, density), time-shift invariance (rate, flat line, attenuated, speed; climatology with absolute spans shifted too), joint data+span shift (gross / valid range), reversal of spike flags, and locality — a change of observation k changes only the flags in the test's neighbourhood (itself / k-1..k+1 / k,k+1 / the trailing windows containing k). Tied by applying the same transformations and single-point perturbations to implementation inputs on the dyadic grid.",
        design_ref="DESIGN.md §8 C17",
        technique="Coq proof (Qeq-compatible decision functions, per-point locality lemmas) + transformation relations on the implementation",
    ),
    "C08": dict(
        text="Coq theorem with NO hypothesis: for every member list, series, time axis and depth pattern the operational model of ClimatologyConfig.check (ordered overwrites per member, depth-span members skipped when no depth is present, MISSING before and after the loop) equals 'the last matching member classifies the value (FAIL outside fspan, else SUSPECT outside vspan, else GOOD, bounds inclusive), UNKNOWN if none matches, MISSING if the value is missing' — by induction over the member list from the right; inclusive boundaries in either order for absolute, periodic and depth spans; calendar arithmetic on Z (civil-date round trip proved, period ranges, exhaustive check 1968-2040). Tied by correspondence over every period kind and member shape and by validating the calendar against pandas. Two genuine defects found by this machinery were repaired (F4, F6).",
        design_ref="DESIGN.md §8 C08",
        technique="Coq proof (fold/rev_ind 'last match wins' refinement, calendar arithmetic) + correspondence",
    ),
    "C12": dict(
        text="Coq theorems (all lengths, missing patterns, both check types, with/without test_period, all min_obs/min_period, all thresholds): the operational model of attenuated_signal_test equals the decision list FAIL (spread below fail) > SUSPECT (below suspect) > GOOD, UNKNOWN when the window holds too few observations or the spread is undefined, MISSING for a missing point; trailing window (t-P, t]; whole-series mode unconditional (empty series included); std compared through the variance (soundness lemma); unknown check_type rejected. The rolling instance holds for EVERY placement of missing values (F19 - rolling range with a missing value in the window -, F24 - min_period with sub-second sampling - were found by this check and repaired); fractional test periods through the time-scaling relation. Partial: pandas rolling semantics modelled.",
        design_ref="DESIGN.md §8 C12",
        technique="Coq proof (refinement with exact rational variance/range, window characterisation) + correspondence",
    ),
    "C07": dict(
        text="Coq theorems over configuration TREES (nested dict/list/scalars, any depth): Config's dispatch on 'contexts' / 'streams' / dict_depth >= 4 (keys and threshold re-read from the source) followed by ContextConfig parsing yields exactly the intended calls — one per configured (stream, module, test) with its parameters, window and region — for the contexts and streams layouts unconditionally, and for the bare stream / bare module layouts under the depth hypotheses the proofs force (shown to be exact, with Coq refutations = known findings F12a/F12b; bare-geometry regions F12c); unknown modules/tests inserted anywhere are skipped without affecting the rest; per-variable xarray attributes round-trip; carriers agree under the stated oracle hypothesis load(dump d)=d. Tied by running Config on generated configurations through 10 carriers x 4 layouts against the model and the intended calls. Partial: ruamel/json/xarray/importlib/shapely are oracles.",
        design_ref="DESIGN.md §8 C07",
        technique="Coq proof (nested-inductive config trees, layout theorems, filtering lemma) + translator + correspondence over carriers x layouts",
    ),
    "C11": dict(
        text="Coq theorems (all lengths incl. short series, all missing patterns, every regular axis with ANY positive step - whole seconds, fractional, sub-second -, all durations>=0 and tolerances): the operational model of flat_line_test (median step in ns, count=trunc(threshold/step), strided windows, n_fill, SUSPECT/FAIL/MISSING order) equals the property's specification with k=floor(threshold/D); window range over present values; short series never flagged. Tied by correspondence on exhaustive small series x duration x tolerance grids and on 0.25/0.5/0.75/1.5/2.5 s axes. F18 (step floored to whole seconds, crash below one second) was found by this check and repaired.",
        design_ref="DESIGN.md §8 C11",
        technique="Coq proof (refinement model=spec incl. floor arithmetic and window folds) + correspondence",
    ),
    "C13": dict(
        text="Coq theorems: density_inversion_test model = per-point specification for ALL profiles, missing placements and threshold options (no hypothesis); both points of an inverted pair flagged; change taken in the direction of increasing depth, zero at constant depth; MISSING for an incomplete record and the next one; reversal symmetry for complete profiles (hypothesis shown necessary); pressure_increasing_test characterised for every input with the sign of the mean step proved equal to sign(last-first) by telescoping (a zero mean counts as ascending, as stated in the theorem). Tied by correspondence on exhaustive small profiles. Translator tie, whole function: the array program (delta) and the flag skeleton of density_inversion_test are regenerated from the source on every run and proved equal to the model (C13_source_program).",
        design_ref="DESIGN.md §8 C13",
        technique="Coq proof + source translator (array program and flag skeleton = model; refinement, reversal symmetry, telescoping sum) + correspondence",
    ),
    "C19": dict(
        text="Coq theorems: cf_safe_name output uses only letters/digits/underscore and never starts with a digit (classes parsed from the regex literals re-read from the source); column naming; the code's include/exclude filter equals the property's rule; for all well-formed runs with pairwise distinct column names PandasStore.save equals the frame the property describes (rows, result/axis/data columns, all write_data/write_axes/include/exclude); compute_aggregate appends the C04 roll-up. Without distinct names the statement is refuted in Coq (known finding F14b: colliding names silently drop a result). Tied by correspondence on stores built from CollectedResults and from real PandasStream runs. Partial: regex engine and DataFrame assembly modelled.",
        design_ref="DESIGN.md §8 C19",
        technique="Coq proof (string-level cf_safe_name lemmas, save loop = specification walk) + translator + correspondence",
    ),
    "C20": dict(
        text="Coq theorems: for ANY value type, every prior stack and every expression tree, evaluating after the expression's postfix code was pushed returns its ordinary arithmetic value and leaves the prior stack unread (induction on the tree, generalised over the stack) — hence independence from every history of earlier, failed or rejected evaluations; the recursive-descent model of the grammar parses both the fully and the minimally parenthesised printing of every tree to exactly that code (precedence, left associativity, unary minus); the validator accepts exactly token lists over numbers and the tables read from the source. Tied by running histories on the real never-reset exprStack (value, pushed symbols, untouched prefix) and the real QcVariableConfig; create_config is exercised on synthetic NetCDF-3 grids (F16 - zero-sum selection padded - and F17 - file not starting in January - were found there and repaired). Partial: pyparsing, float(), xarray and CubicSpline are modelled / only exercised.",
        design_ref="DESIGN.md §8 C20",
        technique="Coq proof (compile/evaluate correctness for every prior stack; parser round-trip) + history correspondence",
    ),
    "C10": dict(
        text="Coq theorems (all lengths, all strictly increasing whole-second axes, all missing patterns, thresholds >= 0): the operational models of rate_of_change_test and speed_test equal the per-point specifications (later point of a pair flagged from |dx| / elapsed whole seconds; first point GOOD resp. UNKNOWN; equality does not flag; length mismatch rejected); speed_test for EVERY geodesic function (geographiclib is an oracle). Tied by correspondence on irregular axes, exact-on-threshold rates and asymmetric tracks with distances computed by geographiclib directly. Partial: geographiclib and numpy timedelta casts are modelled, not verified. Translator tie, whole function: array programs (roc, speed) and flag skeletons regenerated from the source on every run and proved equal to the models (C10_source_program, C10_source_program_speed).",
        design_ref="DESIGN.md §8 C10",
        technique="Coq proof + source translator (array program and flag skeleton = model; refinement model=spec for any geodesic oracle) + model/implementation correspondence check",
    ),
    "C14": dict(
        text="Coq theorems for every geodesic function, track, missing pattern, box and range_max >= 0: the operational model of location_test equals the decision list FAIL (one coordinate missing or strictly outside the box; edges inside) > SUSPECT (hop distance from the previous full position exceeds range_max) > GOOD, MISSING iff both coordinates missing; bbox arity / shape mismatch rejected; default box read from the source is the whole globe. Tied by correspondence on edge/inside/outside positions, antimeridian longitudes, independent missing patterns and hop-exact range_max values. Partial: geographiclib is an oracle. Translator tie: the flag skeleton of location_test regenerated from the source equals the model (C14_source_skeleton); multi-dimensional arrays of different shapes rejected (shape_guard).",
        design_ref="DESIGN.md §8 C14",
        technique="Coq proof (refinement model=spec for any geodesic oracle, <-> characterisations) + correspondence",
    ),
    "C05": dict(
        text="Coq theorems for an ARBITRARY test function (Section variable), all tables, configs and window layouts: the models of NumpyStream/NetcdfStream/QcConfig.run equal the specification 'each test is called on the rows with starting <= t < ending, in original order, with time/depth/position restricted likewise'; PandasStream equals it for every unique row index; XarrayStream equals it under the hypothesis the proof forces (both bounds or none, no row at `ending`) with a Coq refutation outside it (known finding F9). Tied by running all four front ends + QcConfig.run on generated programs (tables x contexts x windows x streams x probe tests registered at run time) against the front-end models, the specification and direct calls. Partial: pandas/xarray/numpy selection semantics are modelled, not verified.",
        design_ref="DESIGN.md §8 C05",
        technique="Coq proof (front-end model = window-rows specification, for any test function) + correspondence on generated programs",
    ),
    "C18": dict(
        text="Coq theorems for an arbitrary test function and arbitrary configurations: the results produced equal those of the configuration with every failing entry removed (any number and placement of faults), every call yields what it yields alone, and collect ignores ContextResults without CallResults. Tied by running all four front ends on programs with sprinkled faults (unknown module/test, absent stream id, missing required input, raising test) against the models and by comparing, on the implementation, full vs healthy-only collected results.",
        design_ref="DESIGN.md §8 C18",
        technique="Coq proof (filter/flat_map commutation over the configuration) + fault-injection correspondence",
    ),
    "C06": dict(
        text="Coq theorems by induction over ARBITRARY sequences of ContextResults (any number of contexts, any window layout incl. overlapping, any yield order, any stream/test multiplicity): both collect forms expose exactly one accumulator per (stream, package, test) in first-seen order (NoDup, complete) and its row i holds the flag of the last context covering i, masked/UNKNOWN if none; covered/uncovered/list-dict agreement and permutation invariance for disjoint windows are corollaries. Faithful model (incl. the data/axis arrays and numpy's scatter errors) tied to the code by correspondence on generated histories; the property's specification is additionally compared with the implementation on the well-formed disjoint histories. Known finding F11 (list form raises without axis arrays) is refuted in Coq by a witness and reported as KNOWN-FINDING.",
        design_ref="DESIGN.md §8 C06",
        technique="Coq proof (fold invariant over the operation sequence; last-writer-wins refinement) + correspondence on generated histories",
    ),
    "C09": dict(
        text="Coq theorems (all lengths, all missing placements, both methods, all threshold combinations): the operational model of spike_test equals the per-point specification (end points UNKNOWN, interior decided from the two neighbours by the average / differential magnitude, FAIL over SUSPECT over GOOD with strict comparisons, MISSING when a needed value is missing); bad method rejected. Tied by correspondence on all series of length<=3 over a 6-symbol alphabet x methods x 16 threshold pairs plus random longer series. Translator tie, whole function: the array program (ref / diff of both methods) and the flag skeleton are regenerated from the source on every run and proved, for all inputs, to compute the model's flags (C09_source_program).",
        design_ref="DESIGN.md §8 C09",
        technique="Coq proof + source translator (array program and flag skeleton = model; refinement model=spec, decision-list characterisation) + model/implementation correspondence check",
    ),
    "C03": dict(
        text="Coq theorems (all lengths, all missing placements, all spans): the operational models of gross_range_test and "
             "valid_range_test equal the property's pointwise decision list; FAIL/SUSPECT/GOOD characterised by strict "
             "inequalities; span order irrelevant; non-contained suspect span rejected. Tied to /repo on every run by "
             "running implementation and model (vm_compute) on the same boundary-value cases. Translator tie: the flag skeletons of gross_range_test and valid_range_test regenerated from the source equal the models (C03_source_skeleton, C03_source_skeleton_valid).",
        design_ref="DESIGN.md §8 C03",
        technique="Coq proof (refinement model=spec + characterisation lemmas) + model/implementation correspondence check",
    ),
    "C04": dict(
        text="Coq theorems for any number of vectors of any length: the double loop over the priority list read from the "
             "source equals 'highest-precedence flag present, MISSING if none'; upper bound, attainment, masked/non-flag "
             "ignored, permutation / duplication / grouping invariance, monotonicity in the set of vectors, identity on a single flag vector and idempotence. Tied by regenerating the priority table from the "
             "AST and by model/implementation correspondence on exhaustive small columns.",
        design_ref="DESIGN.md §8 C04",
        technique="Coq proof (induction over vectors, case analysis over the generated priority list) + translator + correspondence",
    ),
}

NOT_YET = "check not built yet (work in progress; see DESIGN.md §8)"


def main():
    ids = [json.loads(l)["id"] for l in (V / "properties.jsonl").read_text().splitlines() if l.strip()]
    checks, na = [], []
    for pid in ids:
        if pid in CLAIMED:
            c = CLAIMED[pid]
            checks.append({
                "property_id": pid,
                "quick_cmd": f"bin/check {pid} --tier quick",
                "thorough_cmd": f"bin/check {pid} --tier thorough",
                "evidence_file": f"evidence/{pid}.json",
                "replay_cmd_template": f"bin/check {pid} --replay {{path}}",
                "engine": "coq+correspondence",
                "level_claimed": {"category": "proof", "text": c["text"], "design_ref": c["design_ref"]},
                "level_note": c.get("note", "") + COMMON_NOTE,
                "technique": c["technique"],
            })
        else:
            na.append({"property_id": pid, "reason": NOT_YET})
    m = {
        "version": 1,
        "setup_cmd": "bin/setup",
        "hooks": {
            "guard": "IOOS_QC_VERIF",
            "enable": "no source hooks: the harness injects its probe test at run time inside its own process "
                      "(bin/check exports IOOS_QC_VERIF=1 for uniformity)",
            "baseline_off_cmd": "cd /repo && /venv/bin/python -m pytest -ra -q -p no:cacheprovider --timeout=900 "
                                "--continue-on-collection-errors",
            "source_commits": [],
            "add_only": True,
        },
        "engines": [{
            "name": "coq+correspondence",
            "path": "coq/ harness/ tools/",
            "serves_properties": sorted(CLAIMED),
            "kind_free_text": "Coq 8.16.1 development (models, specifications, theorems) + fail-closed AST translator for "
                              "tables + differential correspondence check (implementation vs vm_compute of the model)",
        }],
        "checks": checks,
        "not_applicable": na,
        "notes": "See DESIGN.md. KNOWN_FINDINGS.json lists genuine defects (known / fixed).",
    }
    (V / "MANIFEST.json").write_text(json.dumps(m, indent=1) + "\n")
    print(f"{len(checks)} checks, {len(na)} not_applicable")


if __name__ == "__main__":
    main()
