#!/bin/sh
# tools/try_mutant.sh <patch.diff> <PID> [PID...] — run checks against /repo HEAD + patch in a scratch worktree
P="$1"; shift
W=/root/scratch/mutwt
git -C /repo worktree remove --force $W 2>/dev/null
git -C /repo worktree add -q --detach $W || exit 2
git -C $W apply "$P" || { echo "patch does not apply"; git -C /repo worktree remove --force $W; exit 2; }
for pid in "$@"; do
  echo "== $pid against $(basename $(dirname $P))"
  VERIF_REPO=$W /verif/bin/check $pid --tier quick | cut -c1-300
  echo "exit=$?"
done
git -C /repo worktree remove --force $W
