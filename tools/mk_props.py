#!/usr/bin/env python3
"""Development aid: write coq/theories/Props_<PID>.v from a list of (theorem name, lemma, comment).
The statement of each theorem is obtained once, with `Check`, and written out in full, so the committed
Props file fixes the statements (a later weakening of a lemma breaks `exact`).

usage: mk_props.py <spec.json>
spec: {"pid": "C14", "title": "...", "imports": ["Base", ...], "extra_imports": "From Coq Require Import String.",
       "theorems": [["C14_refines", "location_refines", "comment"], ...], "tail": "Example ..."}
"""
import json
import re
import subprocess
import sys
from pathlib import Path

V = Path(__file__).resolve().parent.parent
TH = V / "coq" / "theories"


def main():
    spec = json.loads(Path(sys.argv[1]).read_text())
    pid = spec["pid"]
    imports = " ".join(spec["imports"])
    extra = spec.get("extra_imports", "")
    tmp = V / "build" / f"Check_{pid}.v"
    tmp.parent.mkdir(exist_ok=True)
    lines = [f"From IoosQc Require Import {imports}.", extra, "Set Printing Width 100.", "Set Printing Depth 10000."]
    for _, lemma, _ in spec["theorems"]:
        lines.append(f'Goal True. idtac "@@BEGIN {lemma}". exact I. Qed.')
        lines.append(f"Check @{lemma}.")
    lines.append('Goal True. idtac "@@END". exact I. Qed.')
    tmp.write_text("\n".join(lines) + "\n")
    p = subprocess.run(f"timeout 300 coqc -Q {TH} IoosQc {tmp.name}", shell=True, cwd=tmp.parent,
                       capture_output=True, text=True)
    if p.returncode != 0:
        print(p.stdout + p.stderr)
        sys.exit(1)
    out = p.stdout
    stmts = {}
    for m in re.finditer(r"@@BEGIN (\S+)\n(.*?)(?=@@BEGIN|@@END)", out, flags=re.S):
        body = m.group(2)
        idx = body.index(":")
        stmts[m.group(1)] = body[idx + 1:].strip()
    o = [f"(* Props_{pid}.v — {spec['title']}", "   Only statements, `exact <lemma>` and Print Assumptions.",
         "   (statements written out by tools/mk_props.py from the lemmas they restate) *)",
         f"From IoosQc Require Import {imports}.", extra, ""]
    for name, lemma, comment in spec["theorems"]:
        if comment:
            o.append("(* " + comment.replace("(*", "( *").replace("*)", "* )") + " *)")
        st = stmts[lemma]
        o.append(f"Theorem {name} :\n  " + st.replace("\n", "\n  ") + ".")
        o.append(f"Proof. exact (@{lemma}). Qed.")
        o.append(f"Print Assumptions {name}.")
        o.append("")
    if spec.get("tail"):
        o.append(spec["tail"])
    (TH / f"Props_{pid}.v").write_text("\n".join(o) + "\n")
    p = subprocess.run(f"timeout 300 coqc -Q {TH} IoosQc Props_{pid}.v", shell=True, cwd=TH, capture_output=True, text=True)
    bad = [l for l in (p.stdout + p.stderr).splitlines() if l.strip() and not l.startswith("Closed under")]
    print(f"Props_{pid}.v: {len(spec['theorems'])} theorems; rc={p.returncode}")
    print("\n".join(bad[:30]))


if __name__ == "__main__":
    main()
